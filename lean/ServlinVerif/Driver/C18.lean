import ServlinVerif.Driver.C17
import ServlinVerif.Model.Logger
import ServlinVerif.Model.LoggerWorld
/- Driver for suite c18: per-phase thread programs; captured events compared per thread. -/
namespace Servlin
namespace Drv.C18
open JsonModel LoggerModel

def hexChars (h : String) : Option (List Char) := hexDecode h >>= C17.utf8Chars

def parseTags (s : String) : Option (List Tag) :=
  (splitNonEmpty s "+").mapM fun kv =>
    match kv.splitOn "=" with
    | [n, v] => do
      let name ← hexChars n
      if v.startsWith "#" then (v.drop 1).toString.toInt?.map fun i => (⟨name, .int i⟩ : Tag)
      else (hexChars v).map fun t => (⟨name, .str t⟩ : Tag)
    | _ => none

inductive POp where
  | add (t : Tag)
  | clear
  | nop      -- `z`: some other thread panics while it holds the handle returned by `global_logger()`: no effect on logging
  | log (level : Level) (msg : List Char) (tags : List Tag)
  | wrapped (method path : List Char) (bodyLen : Option Nat) (r : HandlerResult)

def parseOp (s : String) : Option POp :=
  let k := (s.take 1).toString
  let rest := (s.drop 1).toString
  if k == "c" then some .clear
  else if k == "z" then some .nop
  else if k == "a" then
    match rest.splitOn "=" with
    | [n, v] => do pure (.add ⟨← hexChars n, .str (← hexChars v)⟩)
    | _ => none
  else if k == "l" then
    match rest.splitOn ":" with
    | [lv, msg, tags] => do
      let level := if lv == "e" then Level.error else if lv == "i" then Level.info else Level.debug
      pure (.log level (← hexChars msg) (← parseTags tags))
    | _ => none
  else if k == "w" then
    match rest.splitOn ":" with
    | [kind, m, p, body, code, blen, etags, emsg] => do
      let path ← hexChars p
      let bodyLen ← if body == "P" then some none else (hexDecode body).map fun b => some b.length
      let code ← code.toNat?
      let blen ← blen.toNat?
      let tags ← parseTags etags
      let msg ← hexChars emsg
      let msgO := if msg.isEmpty then none else some msg
      -- g / h: the handler's answer is the instruction to fetch the body (code 0, empty body), returned directly / inside an error
      let r := if kind == "o" || kind == "g" then HandlerResult.ok code (some blen)
        else if kind == "e" || kind == "h" then .err (some (code, some blen)) tags msgO
        else .err none tags msgO
      pure (.wrapped m.toList path bodyLen r)
    | _ => none
  else none

/-- Runs one thread's program: (results, events it should deliver to an installed live logger). -/
def runProgram (sink : Sink) (ops : List POp) : List String × List (Event × List Tag) :=
  let (_, res, evs) := ops.foldl (fun (st : List Tag × List String × List (Event × List Tag)) op =>
    let (tt, res, evs) := st
    match op with
    | .add t => (tt ++ [t], res, evs)
    | .clear => ([], res, evs)
    | .nop => (tt, res, evs)
    | .log level msg tags =>
      let e := LoggerModel.log tt level (⟨"msg".toList, .str msg⟩ :: tags)
      let d := deliver sink e
      (tt, res ++ [if d.stopped then "stopped" else "ok"], evs ++ d.toInstalled.map (·, (⟨"msg".toList, .str msg⟩ :: tags) ++ tt))
    | .wrapped m p bl r =>
      let tt' := requestTags m p bl
      let (resp, level, ctags) := logResponse r
      let e := LoggerModel.log tt' level ctags
      let d := deliver sink e
      (tt', res ++ [if d.stopped then "stopped" else s!"resp{resp.1}"], evs ++ d.toInstalled.map (·, ctags ++ tt'))) ([], [], [])
  (res, evs)

/-- The same phase on the world model (`Model/LoggerWorld.lean`): the logger is set up, then the threads' programs run one
    thread after the other (by `C18_thread_isolation` every interleaving gives each thread the same outcomes). -/
def worldOps (sink : Sink) (progs : List (List POp)) : List LoggerWorld.Op :=
  (match sink with
   | .installed true => [LoggerWorld.Op.setLogger]
   | .installed false => [.setLogger, .dropReceiver]
   | .none => []) ++
  (progs.zipIdx.flatMap fun (ops, t) => ops.flatMap fun op =>
    match op with
    | .add tag => [LoggerWorld.Op.addTag t tag]
    | .clear => [.clear t]
    | .nop => []
    | .log level msg tags => [.log t level (⟨"msg".toList, .str msg⟩ :: tags)]
    | .wrapped m p bl r =>
      let (_, level, ctags) := logResponse r
      [.clear t] ++ (requestTags m p bl).map (LoggerWorld.Op.addTag t) ++ [.log t level ctags])

/-- Per thread: (results of its logging calls, events delivered to the installed logger), from the world model. -/
def worldRuns (sink : Sink) (progs : List (List POp)) : List (List Bool × List Event) :=
  let w := LoggerWorld.run {} (worldOps sink progs)
  (List.range progs.length).map fun t =>
    let mine := (w.out.filter fun p => p.1 == t).map (·.2)
    (mine.map (fun o => match o with | .stopped => true | _ => false),
     mine.filterMap fun o => match o with | .toLogger _ e => some e | _ => none)

def showEvent (e : Event) : String :=
  C17.charsHex ("\"level\":\"".toList ++ e.level.text ++ "\"".toList ++ (if e.tags.isEmpty then [] else ',' :: tagsText e.tags))

/-- Which thread produced this (canonicalised) event text: `"msg":"t<k>-…"` or `"path":"/t<k>/…"`. -/
def threadOf (hexEv : String) : Option Nat := do
  let cs ← hexChars hexEv
  let s := String.ofList cs
  let after := fun (key : String) => (s.splitOn key)[1]?
  match after "\"msg\":\"t", after "\"path\":\"/t" with
  | some r, _ => (r.takeWhile Char.isDigit).toString.toNat?
  | none, some r => (r.takeWhile Char.isDigit).toString.toNat?
  | _, _ => none

/-- Spec check of one observed event against the call that produced it (tags given = call ++ thread). -/
def tagOrderOk (given : List Tag) (observed : List Tag) : List String :=
  let pr := fun (t : Tag) => prio t.name
  (if observed.length == given.length && given.all (fun t => observed.count t == given.count t) then [] else ["tags-not-exactly-call-plus-thread-tags"]) ++
  (if (observed.zip (observed.drop 1)).all (fun p => pr p.1 ≤ pr p.2) then [] else ["priority-tags-not-first"]) ++
  (if (List.range 100).all (fun p => observed.filter (fun t => pr t == p) == given.filter (fun t => pr t == p)) then [] else ["order-not-as-given"])

def handle (args : List String) (obs : String) : String :=
  match args with
  | [phasesS] =>
    let phases := phasesS.splitOn "|"
    let obsPhases := obs.splitOn "|"
    if obs == "PANIC" then "PANIC\tFAIL:panic:" else
    if phases.length != obsPhases.length then "bad\tFAIL:phase-count:" else
    let results := (phases.zip obsPhases).map fun (ph, ob) =>
      match ph.splitOn "@", ob.splitOn "#" with
      | [logger, progsS], [resS, evS] =>
        -- X: the logger is uninstalled while a thread is still inside a logging call: the captured events are a prefix
        -- of what the thread logs (later calls go to the default logger); the next phase must be able to install its own
        -- R: rounds of a logger being installed while another thread makes the first logging call with no logger set
        if logger == "R" then
          let want := "lost=0,panics=0,refused=0#"
          (want, if ob == want then [] else ["installed-logger-lost-or-guard-panicked"]) else
        -- Y: a logger is removed while a call is in flight: once the removal has returned nothing more arrives at it
        -- (world model: a logging call is one step; after `dropGuard` no outcome is `toLogger` of that logger)
        if logger == "Y" then
          let want := "late=0#"
          (want, if ob == want then [] else ["event-delivered-to-a-removed-logger"]) else
        let isX := logger == "X"
        let sink := if logger == "A" ∨ logger == "S" ∨ isX then Sink.installed true else if logger == "D" then .installed false else .none
        match (progsS.splitOn "/").mapM (fun p => (splitNonEmpty p ",").mapM parseOp) with
        | none => ("bad-case", ["bad-case"])
        | some progs =>
          let runs : List (List String × List (Event × List Tag)) := progs.map (runProgram sink)
          -- the world model must tell the same story as the per-thread model (which is what is compared with the code)
          let wr := worldRuns sink progs
          let worldOk := (wr.zip runs).all fun (p : (List Bool × List Event) × (List String × List (Event × List Tag))) =>
            p.1.1 == p.2.1.map (fun s => s == "stopped") && p.1.2 == p.2.2.map (fun (q : Event × List Tag) => q.1)
          let expRes := "/".intercalate (runs.map fun (r : List String × List (Event × List Tag)) => ",".intercalate r.1)
          let obsEvents := splitNonEmpty evS ";"
          let perThread : List (List String) := (List.range progs.length).map fun t => obsEvents.filter fun e => threadOf e == some t
          let expPerThread : List (List String) := runs.map fun (r : List String × List (Event × List Tag)) => r.2.map (fun (p : Event × List Tag) => showEvent p.1)
          let allAssigned := obsEvents.all fun e => (threadOf e).isSome
          let ok := worldOk && resS == expRes && allAssigned &&
            (if isX then (perThread.zip expPerThread).all (fun (o, e) => o.isPrefixOf e) else perThread == expPerThread)
          -- model column: echo the observation when every thread's subsequence is as predicted
          let modelS := if ok then ob else expRes ++ "#" ++ ";".intercalate expPerThread.flatten
          -- oracle: independent statement over the captured events
          let fails : List String :=
            (if resS == expRes then [] else ["call-results"]) ++
            (if obsEvents.length == (expPerThread.map List.length).sum ∨ (isX ∧ obsEvents.length ≤ (expPerThread.map List.length).sum) then []
             else ["event-count-not-one-per-call"]) ++
            (if allAssigned then [] else ["event-from-unknown-thread"]) ++
            ((perThread.zip runs).flatMap fun ((obsT, r) : List String × (List String × List (Event × List Tag))) =>
              ((obsT.zip r.2).flatMap fun ((oh, (expE, given)) : String × (Event × List Tag)) =>
                match hexChars oh with
                | none => ["unparsable-event"]
                | some cs =>
                  match Json.parseObject ('{' :: cs ++ ['}']) with
                  | none => ["event-not-json"]
                  | some members =>
                    let obsTags : List Tag := (members.drop 1).filterMap fun ((k, v) : List Char × Json.Val) =>
                      match v with
                      | Json.Val.str s => some (⟨k, TagValue.str s⟩ : Tag)
                      | Json.Val.num t => (Json.intVal? t).map fun i => (⟨k, TagValue.int i⟩ : Tag)
                      | _ => none
                    -- "given" = the multiset the event must carry, in the order given: recovered from the model's event
                    -- by undoing nothing: the stable-sort characterisation is checked against call ++ thread tags
                    tagOrderOk given obsTags ++
                      (if members.head? == some ("level".toList, Json.Val.str expE.level.text) then [] else ["wrong-level"])).eraseDups)
          (modelS, fails.eraseDups)
      | _, _ => ("bad-case", ["bad-case"])
    let model := "|".intercalate (results.map (·.1))
    let fails := (results.flatMap (·.2)).eraseDups
    model ++ "\t" ++ (if fails.isEmpty then "ok" else "FAIL:" ++ ",".intercalate fails ++ ":")
  | _ => "bad-case\tFAIL:bad-case"

end Drv.C18
end Servlin
