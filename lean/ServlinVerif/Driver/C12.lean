import ServlinVerif.Driver.Util
import ServlinVerif.Model.Server
/- Driver for suites c12t (TokenSet API sequences), c12 (connection limit histories), c13 (shutdown schedules). -/
namespace Servlin
namespace Drv.C12
open Server

def field (obs key : String) : String :=
  match (obs.splitOn " ").find? (·.startsWith (key ++ "=")) with
  | some f => (f.drop (key.length + 1)).toString
  | none => ""

def parseTOp (c : Char) : Option TOp :=
  if c == 't' ∨ c == 'a' ∨ c == 'w' then some .take
  else if c == 'o' ∨ c == 'y' then some .drop
  else if c == 'n' then some .alone else none

def dropAll : Nat → Tokens → Tokens
  | 0, t => t
  | k + 1, t => dropAll k t.drop

/-- c12t `<size> <ops>` -/
def handleTokens (args : List String) (obs : String) : String :=
  match args with
  | [szS, opsS] =>
    match szS.toNat?, opsS.toList.mapM parseTOp with
    | some sz, some ops =>
      let r := (Tokens.new sz).run ops
      let model := s!"{String.ofList r.2} avail={r.1.units} held={r.1.live} all={(dropAll r.1.live r.1).units}"
      -- oracle on the observation: replay it against a plain counter
      let verdict := Id.run do
        if obs == "HANG" ∨ obs == "PANIC" then return "FAIL:" ++ (if obs == "HANG" then "blocked-with-free-slot" else "panic") ++ ":"
        let outs := ((obs.splitOn " ").headD "").toList
        if outs.length != ops.length then return "FAIL:unparsable:" ++ obs
        let mut live := 0
        let mut fails : List String := []
        for (op, o) in ops.zip outs do
          match op with
          | .take =>
            if o == 'T' then
              if live ≥ sz then fails := fails ++ ["over-limit"]
              live := live + 1
            else if live < sz then fails := fails ++ ["slot-lost"]
          | .drop => if live > 0 then live := live - 1
          | .alone => pure ()
        if (field obs "avail").toNat! + (field obs "held").toNat! < sz then fails := fails ++ ["slot-lost"]
        if (field obs "avail").toNat! + (field obs "held").toNat! > sz then fails := fails ++ ["over-limit"]
        if (field obs "all").toNat! < sz then fails := fails ++ ["slot-lost"]
        if (field obs "all").toNat! > sz then fails := fails ++ ["over-limit"]
        if fails.isEmpty then "ok" else "FAIL:" ++ ",".intercalate fails.eraseDups ++ ":"
      model ++ "\t" ++ verdict
    | _, _ => "bad-case\tFAIL:bad-case"
  | _ => "bad-case\tFAIL:bad-case"

def expectedOutcome (k0 : Char) : String :=
  let k := k0.toLower
  if k == 'g' ∨ k == 'k' ∨ k == 'v' ∨ k == 'y' ∨ k == 'q' then "200" else if k == 'e' ∨ k == 'p' then "500" else if k == 'd' then "closed"
  else if k == 'm' then "400" else if k == 'x' then "413" else if k == 'r' then "200+200" else "-"

/-- Canonical schedule on the model: clients are accepted in order; when no slot is free the oldest connection
    ends.  Returns (max serving, final state). -/
def schedule (n : Nat) : Nat → Srv → Nat → Nat × Option Srv
  | 0, s, mx => (mx, some s)
  | k + 1, s, mx =>
    let s := if s.tokens.units = 0 then (step false s .connEnd).getD s else s
    match run false s [.grant, .acceptOk] with
    | none => (mx, none)
    | some s' => schedule n k s' (max mx s'.serving)

def endAll : Nat → Srv → Option Srv
  | 0, s => some s
  | k + 1, s => if s.serving = 0 then some s else (step false s .connEnd).bind (endAll k)

/-- c12 `<n> <kinds> <delays>` -/
def handleLimit (args : List String) (obs : String) : String :=
  match args with
  | [nS, kinds, _] =>
    match nS.toNat? with
    | some n =>
      let ks := kinds.toList
      let gated := (ks.filter fun k => "gepdqEPD".toList.contains k).length
      let (mx1, s1) := schedule n ks.length (Srv.new n) 0
      let reached := (run false (Srv.new n) (fill (min n gated))).isSome
      let s2 := s1.bind (endAll (n + 1))
      let s3 := s2.bind fun s => run false s (fill n)
      let full := (s3.map (·.serving)) == some n
      let s4 := s3.bind fun s => run false s [.revoke, .seeRevoked]
      let stopped := (s4.map (·.acc)) == some Acc.stopped
      let b := fun (x : Bool) => if x then "1" else "0"
      let mx := max mx1 ((s3.map (·.serving)).getD 0)
      let model := s!"max={mx} reached={b reached} full={b full} fresh={if full then n else 0} stopped={b stopped} out={",".intercalate (ks.map expectedOutcome)}"
      let verdict := Id.run do
        if obs == "PANIC" then return "FAIL:harness-panic:"
        let mut fails : List String := []
        if (field obs "max").toNat! > n then fails := fails ++ ["over-limit"]
        if field obs "reached" != "1" ∨ field obs "full" != "1" ∨ (field obs "fresh").toNat! != n then fails := fails ++ ["slot-lost"]
        if field obs "stopped" != "1" then fails := fails ++ ["not-stopped"]
        if (field obs "out").splitOn "," != ks.map expectedOutcome then fails := fails ++ ["wrong-outcome"]
        if fails.isEmpty then "ok" else "FAIL:" ++ ",".intercalate fails ++ ":"
      model ++ "\t" ++ verdict
    | none => "bad-case\tFAIL:bad-case"
  | _ => "bad-case\tFAIL:bad-case"


/-- c13b `<k>`: `k` requests are inside their handlers (all `k` threads of the handler pool) when the permit is revoked.
    On the model (`Model/Server.lean`) the accept loop stops in one step of its own with the `k` connections still serving. -/
def handleShutdownBusy (args : List String) (obs : String) : String :=
  match args.mapM String.toNat? with
  | some [k] =>
    let s := run false (Srv.new (k + 1)) (fill k ++ [.revoke, .seeRevoked])
    let stopped := (s.map (·.acc)) == some Acc.stopped
    let serving := (s.map (·.serving)).getD 0
    let model := s!"inside=1 early=0 stopped={if stopped then 1 else 0} bounded=1 refused=1 handlers_still_running={serving} out={",".intercalate (List.replicate k "200")}"
    let verdict :=
      if obs == "PANIC" then "FAIL:harness-panic:" else
      let fails := (if field obs "early" == "0" then [] else ["stopped-before-revocation"]) ++
        (if field obs "stopped" == "1" && field obs "bounded" == "1" then [] else ["no-stopped-signal-while-handlers-run"]) ++
        (if field obs "refused" == "1" then [] else ["listener-open-after-stopped-signal"]) ++
        (if (field obs "out").splitOn "," == List.replicate k "200" then [] else ["in-flight-request-not-completed"])
      if fails.isEmpty then "ok" else "FAIL:" ++ ",".intercalate fails ++ ":"
    model ++ "\t" ++ verdict
  | _ => "bad-case\tFAIL:bad-case"

/-- c12s `<n>`: `n` event streams are open on a server with `max_conns = n`: they are being serviced (model: `serving = n`,
    no unit left, `C12_limit`), so one more client is accepted only after a stream has ended. -/
def handleStreams (args : List String) (obs : String) : String :=
  match args.mapM String.toNat? with
  | some [n] =>
    let full := (run false (Srv.new n) (fill n)).map fun s => (s.serving, s.tokens.units)
    let model := s!"events={",".intercalate (List.replicate n "8")} extra=200/2 extra_waited_for_a_stream_to_end={if full == some (n, 0) then 1 else 0} stopped=1"
    let verdict :=
      if obs == "PANIC" then "FAIL:harness-panic:" else
      let fails := (if field obs "extra_waited_for_a_stream_to_end" == "1" then [] else ["over-limit"]) ++
        (if field obs "extra" == "200/2" then [] else ["slot-lost"]) ++
        (if (field obs "events").splitOn "," == List.replicate n "8" then [] else ["stream-incomplete"])
      if fails.isEmpty then "ok" else "FAIL:" ++ ",".intercalate fails ++ ":"
    model ++ "\t" ++ verdict
  | _ => "bad-case\tFAIL:bad-case"

/-- c12i `<k>`: failing accepts must not keep the connection tasks from running (one async thread). -/
def handleEmfileIdle (args : List String) (obs : String) : String :=
  match args with
  | [_] =>
    let model := "starved=1 served=1 stopped=1"
    let verdict :=
      if obs == "no-prlimit" then "free" else
      if obs == "PANIC" then "FAIL:harness-panic:" else
      let fails := (if field obs "served" == "1" then [] else ["failing-accepts-starve-connection-tasks"]) ++
        (if field obs "stopped" == "1" then [] else ["not-stopped"])
      if fails.isEmpty then "ok" else "FAIL:" ++ ",".intercalate fails ++ ":"
    (if obs == "no-prlimit" then obs else model) ++ "\t" ++ verdict
  | _ => "bad-case\tFAIL:bad-case"

/-- c13p `<k> <j>` -/
def handlePermit (args : List String) (obs : String) : String :=
  match args with
  | [kS, jS] =>
    match kS.toNat? with
    | some k =>
      let n := servedUnder k jS.toNat? (k + 2) ⟨.check, 0⟩
      let model := s!"served={n} calls={n}"
      let verdict :=
        if obs == "PANIC" then "FAIL:panic:" else
        let served := (field obs "served").toNat!
        let fails := (if jS == "0" && served > 0 then ["served-after-revocation"] else []) ++
          (match jS.toNat? with | some j => if j > 0 && served > j then ["more-than-the-request-in-flight"] else [] | none => []) ++
          (match jS.toNat? with | some j => if j > 0 && served < min j k then ["in-flight-request-not-completed"] else [] | none => if served < k then ["request-not-served"] else [])
        if fails.isEmpty then "ok" else "FAIL:" ++ ",".intercalate fails ++ ":"
      model ++ "\t" ++ verdict
    | none => "bad-case\tFAIL:bad-case"
  | _ => "bad-case\tFAIL:bad-case"

/-- c12b `<size> <back>`: every unit of a large set is taken, `back` of them are dropped, as many are taken again
    (model: `C12_tokens`: units + live = size in every reachable state, so exactly `back` units are available again). -/
def handleTokensBig (args : List String) (obs : String) : String :=
  match args.mapM String.toNat? with
  | some [size, back] =>
    let model := s!"first={size} again={min back size} held={size}"
    model ++ "\t" ++ (if obs == model then "ok" else "FAIL:slots-not-conserved:")
  | _ => "bad-case\tFAIL:bad-case"

/-- c12e `<n> <rounds>`: accept failures by descriptor exhaustion. -/
def handleEmfile (args : List String) (obs : String) : String :=
  match (args.take 2).mapM String.toNat? with
  | some [n, rounds] =>
    let evs := (List.replicate rounds [Ev.grant, .acceptErr, .wake, .grant, .acceptOk, .connEnd]).flatten
    let s1 := run false (Srv.new n) evs
    let s2 := s1.bind fun s => run false s (fill n)
    let full := (s2.map (·.serving)) == some n
    let s3 := s2.bind fun s => run false s [.revoke, .seeRevoked]
    let b := fun (x : Bool) => if x then "1" else "0"
    let model := s!"starved={rounds} dropped=0 served={if s1.isSome then rounds else 0} emfile_logged=1 full={b full} fresh={if full then n else 0} max={(s2.map (·.serving)).getD 0} stopped={b ((s3.map (·.acc)) == some Acc.stopped)}"
    let verdict := Id.run do
      if obs.startsWith "no-prlimit" ∨ obs.startsWith "noconn" then return "free"
      -- a client waiting in the backlog was disconnected: the failed accept took the listener (the accept loop) down
      if (field obs "dropped").toNat! > 0 then return "FAIL:accept-failure-stopped-the-server:"
      if (field obs "starved").toNat! < rounds ∨ field obs "emfile_logged" != "1" then return "free"   -- the injection did not take
      let mut fails : List String := []
      if (field obs "served").toNat! != rounds then fails := fails ++ ["connection-lost-after-accept-failure"]
      if field obs "full" != "1" ∨ (field obs "fresh").toNat! != n then fails := fails ++ ["slot-lost"]
      if (field obs "max").toNat! > n then fails := fails ++ ["over-limit"]
      if field obs "stopped" != "1" then fails := fails ++ ["not-stopped"]
      if fails.isEmpty then "ok" else "FAIL:" ++ ",".intercalate fails ++ ":"
    model ++ "\t" ++ verdict
  | _ => "bad-case\tFAIL:bad-case"

/-- Lets the accept loop run alone (events that need nothing from outside) until it stops; returns the number of steps. -/
def loopAlone : Nat → Srv → Nat → Option Nat
  | 0, _, _ => none
  | fuel + 1, s, k =>
    if s.acc = .stopped then some k else
    match enabledAlone false s with
    | [] => none
    | e :: _ => (step false s e).bind fun s' => loopAlone fuel s' (k + 1)


/-- c13e `<n> <delay>`: revocation while accept keeps failing. -/
def handleShutdownEmfile (args : List String) (obs : String) : String :=
  match args.mapM String.toNat? with
  | some [n, _] =>
    -- accept failed, the loop sleeps with its token; the permit is revoked; the loop runs alone
    let s0 := run false (Srv.new n) [.grant, .acceptErr, .revoke]
    let steps := s0.bind fun s => loopAlone 8 s 0
    let b := fun (x : Bool) => if x then "1" else "0"
    let bounded := match steps with
      | some k => k ≤ 3
      | none => false
    let model := s!"starved=1 early=0 stopped={b steps.isSome} bounded={b bounded} late=refused"
    let verdict :=
      if obs.startsWith "no-prlimit" ∨ obs.startsWith "noconn" ∨ field obs "starved" != "1" then "free" else
      let fails := (if field obs "early" != "0" then ["stopped-before-revocation"] else []) ++
        (if field obs "stopped" != "1" ∨ field obs "bounded" != "1" then ["stop-signal-late"] else []) ++
        (if field obs "stopped" == "1" ∧ field obs "late" != "refused" then ["listener-not-released"] else [])
      if fails.isEmpty then "ok" else "FAIL:" ++ ",".intercalate fails ++ ":"
    model ++ "\t" ++ verdict
  | _ => "bad-case\tFAIL:bad-case"

/-- c08s `<secs>`: a client stalls in the middle of a 32 MiB response and resumes: exactly that one response arrives. -/
def handleStall (_args : List String) (obs : String) : String :=
  let n := 32 * 1024 * 1024
  let model := s!"status=200 declared={n} body={n} extra=0 second_status_line=0 stopped=1"
  let verdict :=
    if obs == "noconn" then "free" else
    let fails := (if field obs "second_status_line" != "0" ∨ field obs "extra" != "0" then ["bytes-after-failed-or-partial-response"] else []) ++
      (if field obs "status" == "200" ∧ field obs "body" == toString n then [] else ["slow-client-lost-its-response"])
    if fails.isEmpty then "ok" else "FAIL:" ++ ",".intercalate fails ++ ":"
  model ++ "\t" ++ verdict

def respLen (p : Char) (i : Nat) : Nat :=
  if p.toLower == 'i' ∨ p.toLower == 'h' then 2 else if p == 'r' ∨ p == 'x' ∨ p == 'f' then 5 + (toString i).length else if p == 'b' then 7 else if p == 's' then 8 else 6 * 1024 * 1024

/-- c13 `<n> <phases> <delay>` -/
def handleShutdown (args : List String) (obs : String) : String :=
  match args with
  | [nS, phases, _] =>
    match nS.toNat? with
    | some n =>
      let ph := phases.toList.filter (fun c => c != '-' && c != 'L')
      let s0 := run false (Srv.new n) (fill ph.length)
      let early := (s0.map (·.acc)) == some Acc.stopped
      let steps := (s0.bind fun s => step false s .revoke).bind fun s => loopAlone 8 s 0
      let stopped := steps.isSome
      let bounded := match steps with
        | some k => k ≤ 3
        | none => false
      let conn := fun (p : Char) (i : Nat) =>
        let c0 : ConnSt := if p.toLower == 'i' ∨ p.toLower == 'h' then ⟨.waiting, 0⟩ else ⟨.serving, 0⟩
        let evs : List CEv := (if p.toLower == 'i' ∨ p.toLower == 'h' then [CEv.request] else []) ++ [.respond, .loopTop]
        match crun true c0 evs with
        | some c1 =>
          let first := if c1.responses == 1 then s!"200/{respLen p i}" else "closed"
          let second := match cstep true c1 .request with
            | some _ => "200/2"
            | none => "closed"
          s!"{p}:{first}+{second}"
        | none => s!"{p}:closed+closed"
      let b := fun (x : Bool) => if x then "1" else "0"
      let model := s!"early={b early} stopped={b stopped} bounded={b bounded} late=refused leak=0 conns={",".intercalate (ph.zipIdx.map fun (p, i) => conn p i)}"
      let verdict := Id.run do
        if obs == "PANIC" ∨ obs == "noconn" ∨ obs == "setup-failed" then return "FAIL:setup:" ++ obs
        let mut fails : List String := []
        if field obs "early" != "0" then fails := fails ++ ["stopped-before-revocation"]
        if field obs "stopped" != "1" ∨ field obs "bounded" != "1" then fails := fails ++ ["stop-signal-late"]
        if field obs "late" == "served" then fails := fails ++ ["served-after-stop"]
        if field obs "stopped" == "1" ∧ field obs "late" != "refused" then fails := fails ++ ["listener-not-released"]
        if field obs "leak" != "0" then fails := fails ++ ["temp-file-outlives-connection"]
        for (c, (p, i)) in (splitNonEmpty (field obs "conns") ",").zip ph.zipIdx do
          match ((c.drop 2).toString).splitOn "+" with
          | [first, second] =>
            if first != s!"200/{respLen p i}" then fails := fails ++ ["inflight-incomplete"]
            if second != "closed" then fails := fails ++ ["served-more-than-one"]
          | _ => fails := fails ++ ["unparsable"]
        if fails.isEmpty then "ok" else "FAIL:" ++ ",".intercalate fails.eraseDups ++ ":"
      model ++ "\t" ++ verdict
    | none => "bad-case\tFAIL:bad-case"
  | _ => "bad-case\tFAIL:bad-case"

end Drv.C12
end Servlin
