import ServlinVerif.Driver.Util
import ServlinVerif.Spec.ErrorClasses
/- Driver for suites c20s (status-named constructors) and c20e (error → response mapping). -/
namespace Servlin
namespace Drv.C20
open HttpError

def showKind : RespKind → String
  | .normal => "normal"
  | .dropConnection => "drop"
  | .getBodyAndReprocess n => s!"getbody:{n}"

def showResponse (r : Response) : String :=
  let ct := match r.ctype with | none => "N" | some c => "S:" ++ hexEncode c
  let hs := ",".intercalate (r.headers.map fun h => hexEncode h.name ++ ":" ++ hexEncode h.value)
  s!"{showKind r.kind} {r.code} {ct} {hs} B:{hexEncode r.body.src.pieces.flatten}"

def parseKind (s : String) : Option RespKind :=
  match s.splitOn ":" with
  | ["normal"] => some .normal
  | ["drop"] => some .dropConnection
  | ["getbody", n] => n.toNat?.map .getBodyAndReprocess
  | _ => none

def parseHeaders (s : String) : Option HeaderList :=
  (splitNonEmpty s ",").mapM fun h =>
    match h.splitOn ":" with
    | [n, v] => do pure ⟨← hexDecode n, ← hexDecode v⟩
    | _ => none

/-- Parses `kind code ctype headers B:body` (bodies that are not in memory are shown as `?`). -/
def parseResponse (fs : List String) : Option Response :=
  match fs with
  | [k, c, ct, hs, b] => do
    let kind ← parseKind k
    let code ← c.toNat?
    let ctype ← if ct == "N" then some none else (hexDecode (ct.drop 2).toString).map some
    let headers ← parseHeaders hs
    let body ← if b.startsWith "B:" then hexDecode (b.drop 2).toString else none
    pure { kind, code, ctype, headers, body := Body.ofBytes body }
  | _ => none

def parseError (spec : String) : Option (HttpError × Bytes) :=
  match spec.splitOn ":" with
  | ["errorReadingFile", k, m] => do let m ← hexDecode m; pure (errorReadingFile k m, m)
  | ["errorReadingResponseBody", k, m] => do let m ← hexDecode m; pure (errorReadingResponseBody k m, m)
  | ["errorSavingFile", k, m] => do let m ← hexDecode m; pure (errorSavingFile k m, m)
  | [n] =>
    let all := [alreadyGotBody, bodyNotAvailable, bodyNotRead, bodyNotUtf8, bodyTooLong,
      cacheDirNotConfigured, disconnected, duplicateContentLengthHeader, duplicateContentTypeHeader,
      duplicateTransferEncodingHeader, handlerDeadlineExceeded, headTooLong, invalidContentLength,
      malformedCookieHeader, malformedHeaderLine, malformedPath, malformedRequestLine,
      missingRequestLine, responseAlreadySent, responseNotSent, timerThreadNotStarted, truncated,
      unsupportedProtocol, unsupportedTransferEncoding, unwritableResponse]
    (all.find? fun e => (e.name.toList.head?.map Char.toLower).toList ++ e.name.toList.tail == n.toList).map (·, [])
  | _ => none

/-- c20e: returns model outcome and oracle verdict on the observed outcome. -/
def handleError (args : List String) (obs : String) : String :=
  match args with
  | [spec] =>
    match parseError spec with
    | none => "bad-case\tFAIL:bad-case"
    | some (e, payload) =>
      let model := s!"{showResponse (toResponse e)} {isServerError e} D:{hexEncode (description e)}"
      let verdict :=
        match (obs.splitOn " ") with
        | [k, c, ct, hs, b, _server, _d] =>
          match parseResponse [k, c, ct, hs, b] with
          | some r =>
            match ErrorClasses.check e payload r with
            | [] => "ok"
            | fails => "FAIL:" ++ ",".intercalate fails ++ ":"
          | none => "FAIL:unparsable-response:"
        | _ => "FAIL:unparsable-observation:"
      model ++ "\t" ++ verdict
  | _ => "bad-case\tFAIL:bad-case"

/-- c20x: the other error values that become responses: `std::io::Error` (only `InvalidData` is the client's fault), the library's own
    "cannot read pending body" error (a fault of the server program), and `log::Error` through `log_response` (the response the handler
    attached, else an empty 500; the message is for the log only). -/
def handleX (args : List String) (obs : String) : String :=
  match args with
  | [spec] =>
    let p := spec.splitOn ":"
    let expected : Option Response :=
      match p with
      | ["io", kind, t] => (hexDecode t).map (ofIoError (kind == "InvalidData"))
      -- (the library's own error for reading a pending body has kind `InvalidInput`)
      | ["pend", _, _] => some (ofIoError false [])
      | ["err", ctor, resp, _] =>
        let given : Option Response :=
          if resp == "-" then none
          else if resp.startsWith "t" then (resp.drop 1).toString.toNat?.map fun c => Response.text c (str "shown")
          else if resp.startsWith "g" then (resp.drop 1).toString.toNat?.map Response.getBodyAndReprocess
          else resp.toNat?.map Response.new
        some (ofLogError (if ctor == "client" then some (given.getD (Response.new 400)) else given) none)
      | _ => none
    match expected with
    | none => "bad-case\tFAIL:bad-case"
    | some e =>
      let model := showResponse e
      let verdict :=
        match parseResponse (obs.splitOn " ") with
        | some r =>
          let body := r.body.src.pieces.flatten
          let leaks := (List.range (body.length + 1)).any fun i => (str "ZQ").isPrefixOf (body.drop i)
          let fails := (if r.code == e.code then [] else ["wrong-status-class"]) ++
            (if leaks then ["error-text-in-response-body"] else []) ++
            (if r.kind == e.kind then [] else ["not-the-attached-response"])
          if fails.isEmpty then "ok" else "FAIL:" ++ ",".intercalate fails ++ ":"
        | none => if obs == "PANIC" then "FAIL:panic:" else "FAIL:unparsable-response:"
      model ++ "\t" ++ verdict
  | _ => "bad-case\tFAIL:bad-case"

/-- c20s: `name nnn`; the statement is "normal response with exactly that code". -/
def handleStatus (args : List String) (obs : String) : String :=
  match args with
  | _name :: nnn :: _ =>
    let model := s!"normal {nnn}"
    let verdict :=
      match obs.splitOn " " with
      | k :: c :: _ =>
        let fails := (if k == "normal" then [] else ["status-kind"]) ++ (if c == nnn then [] else ["status-code"])
        if fails.isEmpty then "ok" else "FAIL:" ++ ",".intercalate fails ++ ":"
      | _ => "FAIL:status-unparsable:" ++ obs
    model ++ "\t" ++ verdict
  | _ => "bad-case\tFAIL:bad-case"

end Drv.C20
end Servlin
