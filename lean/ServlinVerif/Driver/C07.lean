import ServlinVerif.Driver.Util
import ServlinVerif.Model.Chunked
import ServlinVerif.Spec.ChunkDecoder
/- Driver for suite c07: `c07 <data> <read sizes> <eof|err> <write sizes> <pending>`. -/
namespace Servlin
namespace Drv.C07
open Chunked ChunkDecoder

/-- The pieces a reader offering `sizes` (cycled; empty = everything) delivers into a slice of
    `cap` bytes.  (Tail recursive over an array index.) -/
def pieces (data : Bytes) (sizes : List Nat) (cap : Nat) : List Bytes := Id.run do
  let a := data.toArray
  let sz := sizes.toArray
  let mut out : Array Bytes := #[]
  let mut pos := 0
  let mut k := 0
  while pos < a.size do
    let remaining := a.size - pos
    let offered := if sz.isEmpty then remaining else max 1 (sz[k % sz.size]!)
    k := k + 1
    let n := min (min offered remaining) cap
    out := out.push (a.extract pos (pos + n)).toList
    pos := pos + n
  return out.toList

def showRes : CopyResult → String
  | .ok n => s!"ok:{n}"
  | .readerErr => "rerr"
  | .writerErr => "werr"

def handle (args : List String) (obs : String) : String :=
  match args with
  | data :: rs :: e :: _ws :: _pend :: rest =>
    match decBytes data, parseSizes rs with
    | some d, some sizes =>
      let src : Source := { pieces := pieces d sizes maxPiece, endsWithError := e == "err" }
      let (out0, res0) := copyChunked src
      -- optional 6th argument: the writer fails (permanently, or once with `Interrupted`) when it has accepted k bytes
      let failAt : Option Nat := rest.head?.bind String.toNat?
      let (out, res) := match failAt with
        | some k => if k < out0.length then (out0.take k, CopyResult.writerErr) else (out0, res0)
        | none => (out0, res0)
      let cut : Bool := match failAt with | some k => decide (k < out0.length) | none => false
      let model := encBytes out ++ " " ++ showRes res
      let verdict :=
        match obs.splitOn " " with
        | [o, r] =>
          match decBytes o with
          | some ob =>
            let dres := decode ob
            let fails :=
              if cut then
                -- a failed writer: what reached it is a prefix of the one correct output, and the failure is reported
                (if ob.isPrefixOf out0 then [] else ["not-a-prefix-of-the-encoding"]) ++
                (if r == "werr" then [] else ["write-error-not-reported"]) ++
                (match dres with | .complete .. => ["truncated-output-looks-complete"] | _ => [])
              else if e == "err" then
                (if dres == .incomplete then [] else ["error-looks-complete"]) ++
                (if r == "rerr" then [] else ["error-not-reported"])
              else
                (if dres == .complete d [] then [] else ["decode-mismatch"]) ++
                (if r.startsWith "ok:" then [] else ["copy-failed"])
            if fails.isEmpty then "ok" else "FAIL:" ++ ",".intercalate fails ++ ":"
          | none => "FAIL:unparsable:"
        | _ => if obs == "PANIC" then "FAIL:panic:" else "FAIL:unparsable:"
      model ++ "\t" ++ verdict
    | _, _ => "bad-case\tFAIL:bad-case"
  | _ => "bad-case\tFAIL:bad-case"

end Drv.C07
end Servlin
