import ServlinVerif.Driver.Util
import ServlinVerif.Model.Json
import ServlinVerif.Spec.JsonParser
/- Driver for suite c17: `c17 <level> <tags> <float texts>` ⇒ hex of the JSONL line. -/
namespace Servlin
namespace Drv.C17
open JsonModel

def utf8Chars (bs : Bytes) : Option (List Char) := (String.fromUTF8? (ByteArray.mk bs.toArray)).map String.toList

def charsHex (cs : List Char) : String := hexEncode (String.ofList cs).toUTF8.toList

def parseTag (spec : String) (floatText : String) : Option Tag :=
  match spec.splitOn "=" with
  | [n, rest] => do
    let name ← hexDecode n >>= utf8Chars
    match rest.splitOn ":" with
    | [kind, payload] =>
      let value : Option TagValue :=
        if kind == "s" || kind == "t" || kind == "os" then (hexDecode payload >>= utf8Chars).map .str
        else if kind == "b" then some (.bool (payload == "1"))
        else if kind == "n" || kind == "on" then some .null
        else if kind == "f32" || kind == "f64" then (hexDecode floatText >>= utf8Chars).map .float
        else payload.toInt?.map .int
      value.map fun v => ⟨name, v⟩
    | _ => none
  | _ => none

def isoShape (t : List Char) : Bool :=
  t.length == 20 &&
  (t.zipIdx.all fun (c, i) =>
    if i == 4 || i == 7 then c == '-' else if i == 10 then c == 'T' else if i == 13 || i == 16 then c == ':'
    else if i == 19 then c == 'Z' else Json.isDigit c)

def checkValue (v : TagValue) (j : Json.Val) : Bool :=
  match v, j with
  | .str s, .str t => s == t
  | .bool b, .bool c => b == c
  | .null, .null => true
  | .int i, .num t => Json.intVal? t == some i
  | .float t, j =>
    if t == "NaN".toList || t == "inf".toList || t == "-inf".toList then j == .null else j == .num t
  | _, _ => false

def handle (args : List String) (obs : String) : String :=
  match args with
  | [level, tags, floats] =>
    let specs := splitNonEmpty tags ","
    let fl := if specs.isEmpty then [] else (floats.splitOn ",")
    let fl := fl ++ List.replicate (specs.length - fl.length) ""
    match (specs.zip fl).mapM (fun p => parseTag p.1 p.2) with
    | none => "bad-case\tFAIL:bad-case"
    | some tagList =>
      if obs == "PANIC" then "PANIC\tFAIL:panic:" else
      match hexDecode obs >>= utf8Chars with
      | none => "not-utf8\tFAIL:not-utf8:"
      | some line =>
        match Json.parseLine line with
        | none =>
          -- the model still needs the time fields: recover them positionally
          "unparsable\tFAIL:not-one-json-object-line:"
        | some members =>
          let timeIso := match members.head? with | some (_, .str t) => t | _ => []
          let timeNs := match members.getLast? with | some (_, .num t) => (Json.intVal? t).getD 0 |>.toNat | _ => 0
          let model := charsHex (writeJsonl timeIso level.toList tagList timeNs)
          let expectedNames := ["time".toList, "level".toList] ++ tagList.map (·.name) ++ ["time_ns".toList]
          let fails : List String :=
            (if members.map (·.1) == expectedNames then [] else ["wrong-members"]) ++
            (match members.head? with | some (_, .str t) => if isoShape t then [] else ["time-shape"] | _ => ["time-shape"]) ++
            (match members.drop 1 with | (_, Json.Val.str l) :: _ => if l == level.toList then [] else ["wrong-level"] | _ => ["wrong-level"]) ++
            (match members.getLast? with | some (_, .num t) => if (Json.intVal? t).isSome then [] else ["time_ns"] | _ => ["time_ns"]) ++
            (if members.length == tagList.length + 3 &&
                (tagList.zip (members.drop 2)).all (fun p => checkValue p.1.value p.2.2) then [] else ["wrong-tag-value"])
          model ++ "\t" ++ (if fails.isEmpty then "ok" else "FAIL:" ++ ",".intercalate fails ++ ":")
  | _ => "bad-case\tFAIL:bad-case"

end Drv.C17
end Servlin
