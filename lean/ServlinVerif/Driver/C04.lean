import ServlinVerif.Driver.C05
import ServlinVerif.Model.Event
import ServlinVerif.Model.EventChannel
/- Driver for suites c04 / c09 / c10: the full server with a scripted handler. -/
namespace Servlin
namespace Drv.C04
open ConnModel

inductive Beh where
  | normal (code : Nat)
  | getBody (m : Nat)
  | getBodyThen (m : Nat) (second : String)   -- second-call behaviour: n<code> | d | p | a
  | always (m : Nat)
  | drop
  | panic
  | file (code declared : Nat) (actual : Option Nat)   -- response with a file body (`none` = file missing)
  | events (n : Nat) (code : Nat := 200)                -- event stream of n messages, then closed
  | echoUpload                                          -- fetch the body, answer with the uploaded file as the response body
  | eventsThenOversize (n : Nat)                        -- n small events, then one the encoder cannot take: the source fails
  | eventBurst (n : Nat)                                -- n events of 30 000 bytes queued before the response is returned
  | unwritable                                          -- a response with a Content-Length field of its own: refused before any byte
  | uploadThenEvents (k : Nat)                          -- fetch the body, then an event stream of the first min k 50 messages
deriving Repr, DecidableEq

structure SReq where
  method : String
  path : String
  framing : String
  body : Bytes
  beh : Beh
deriving Repr

def parseBeh (s : String) : Beh :=
  let k := (s.take 1).toString
  let n := ((s.drop 1).toString.toNat?).getD 0
  if k == "g" && s.contains '-' then
    match ((s.drop 1).toString).splitOn "-" with
    | [m, second] => .getBodyThen (m.toNat?.getD 0) second
    | _ => .panic
  else
  if k == "F" then
    match ((s.drop 1).toString).splitOn "-" with
    | [c, d, a] => .file (c.toNat?.getD 0) (d.toNat?.getD 0) (if a == "m" then none else a.toNat?)
    | _ => .panic
  else
  if k == "E" then .events n else
  if k == "X" then .events n 503 else
  if k == "S" then .uploadThenEvents n else
  if k == "Q" then .getBody 1000000 else
  if k == "U" then .unwritable else
  if k == "B" then .eventBurst n else
  if k == "R" then .getBody n else
  if k == "O" then .eventsThenOversize n else
  if k == "T" then .echoUpload else
  if k == "w" then .getBody 1000000 else
  if k == "n" then .normal n else if k == "g" then .getBody n else if k == "a" then .always n
  else if k == "d" then .drop else .panic

def parseReq (s : String) : Option SReq :=
  match s.splitOn ":" with
  | [m, p, f, b, beh] => (decBytes b).map fun body => ⟨m, p, f, body, parseBeh beh⟩
  | _ => none

/-- Same construction as `request_bytes` in the harness. -/
def reqBytes (r : SReq) : Bytes :=
  if r.framing == "x" then str s!"{r.method} {r.path}\r\n\r\n" else
  if r.framing == "h" then str s!"{r.method} {r.path} HTTP/1.0\r\n\r\n" else
  if r.framing == "l" then str s!"{r.method} {r.path} HTTP/1.1\r\nx-pad: {String.ofList (List.replicate 9000 'x')}\r\n\r\n" else
  if r.framing == "q" then str s!"{r.method} {r.path} HTTP/1.1\r\ncookie: novalue\r\n\r\n" else
  if r.framing == "z" then str s!"{r.method} {r.path} HTTP/1.1\r\ncontent-length: abc\r\n\r\n" else
  let head := s!"{r.method} {r.path} HTTP/1.1\r\n" ++
    (if r.framing == "k" then s!"content-length: {r.body.length}\r\n"
     else if r.framing == "e" then s!"content-length: {r.body.length}\r\nexpect: 100-continue\r\n"
     else if r.framing == "c" then "transfer-encoding: chunked\r\n"
     else if r.framing.startsWith "d" then s!"content-length: {(r.framing.drop 1).toString}\r\n"
     else if r.framing.startsWith "f" then s!"content-length: {(r.framing.drop 1).toString}\r\nexpect: 100-continue\r\n"
     else if r.framing == "v" then "expect: 100-continue\r\n"
     else if r.framing == "K" then "Connection: keep-alive\r\n"
     else "") ++ "\r\n"
  str head ++ r.body

def behOf (reqs : List SReq) (path : Bytes) : Beh :=
  match reqs.find? (fun r => str r.path == path) with
  | some r => r.beh
  | none => .normal 200

def handlerOf (reqs : List SReq) (v : ReqView) : HandlerOut :=
  let path := v.req.url.path
  let ps := String.fromUTF8! (ByteArray.mk path.toArray)
  match behOf reqs path with
  | .normal code => .normal (Response.text code (str s!"resp-{ps}"))
  | .getBody m =>
    match v.body with
    | none => .getBody m
    | some (.vec b) => .normal (Response.text 200 (str s!"got-{ps}-{b.length}"))
    | some (.file _ b) => .normal (Response.text 200 (str s!"got-{ps}-{b.length}"))
  | .getBodyThen m second =>
    match v.body with
    | none => .getBody m
    | some _ =>
      let k := (second.take 1).toString
      if k == "n" then .normal (Response.text ((second.drop 1).toString.toNat?.getD 200) (str s!"resp-{ps}"))
      else if k == "d" then .drop else if k == "p" then .panic else .getBody m
  | .always m => .getBody m
  | .drop => .drop
  | .panic => .panic
  | .echoUpload =>
    match v.body with
    | none => .getBody 1000000
    | some (.file _ b) => .normal { code := 200, body := ⟨some b.length, { pieces := if b.isEmpty then [] else [b] }⟩ }
    | some (.vec b) => .normal (Response.text 200 (str s!"mem-{ps}-{b.length}"))
  | .eventsThenOversize n =>
    .normal { code := 200, ctype := some (str "text/event-stream"),
              body := ⟨none, { pieces := (List.range n).map (fun i => EventModel.encode (.message (str s!"e{i+1}-{ps}"))), endsWithError := true }⟩ }
  | .eventBurst n =>
    .normal { code := 200, ctype := some (str "text/event-stream"),
              body := ⟨none, { pieces := (List.range n).map fun i => EventModel.encode (.message (str s!"e{i+1}-{ps}-{String.ofList (List.replicate 30000 'b')}")) }⟩ }
  | .unwritable => .normal { Response.text 200 (str "x") with headers := [⟨str "Content-Length", str "1"⟩] }
  | .uploadThenEvents k =>
    match v.body with
    | none => .getBody 1000000
    | some _ =>
      -- the queue holds `EventChannel.capacity` events; a sender that overruns it is disconnected (C11), it never blocks
      .normal { code := 200, ctype := some (str "text/event-stream"),
                body := ⟨none, { pieces := (List.range (min k EventChannel.capacity)).map fun i => EventModel.encode (.message (str s!"e{i+1}-{ps}")) }⟩ }
  | .events n code =>
    .normal { code := code, ctype := some (str "text/event-stream"),
              body := ⟨none, { pieces := (List.range n).map fun i => EventModel.encode (.message (str s!"e{i+1}-{ps}")) }⟩ }
  | .file code declared actual =>
    let content : Bytes := (List.range (actual.getD 0)).map fun i => (97 + i % 26).toUInt8
    .normal { code := code, ctype := some (str "application/octet-stream"),
              body := ⟨some declared, { openFails := actual.isNone, pieces := if content.isEmpty then [] else [content] }⟩ }

def showCall (c : Call) : String :=
  let m := String.fromUTF8! (ByteArray.mk c.view.req.method.toArray)
  let p := String.fromUTF8! (ByteArray.mk c.view.req.url.path.toArray)
  let b := match c.view.body with
    | none => "P"
    | some (.vec b) => "B" ++ encBytes b
    | some (.file _ b) => "B" ++ encBytes b
  s!"{m}:{p}:{b}"

def obsGet (obs key : String) : Option String :=
  (obs.splitOn " ").findSome? fun kv =>
    if kv.startsWith (key ++ "=") then some (kv.drop (key.length + 1)).toString else none

/-- Invariants of C04 over (requests sent, handler calls, responses received). -/
def exchangeCheck (reqs : List SReq) (calls : List String) (wire : Bytes) (cut : Bool := false) : List String :=
  let idxOf := fun (call : String) =>
    match call.splitOn ":" with
    | [_, p, _] => reqs.findIdx? (fun r => r.path == p)
    | _ => none
  let idxs := calls.map idxOf
  let okIdx := idxs.all Option.isSome
  let is := idxs.filterMap id
  -- I1/I2: order and multiplicity
  let sorted := (is.zip (is.drop 1)).all fun p => p.1 ≤ p.2
  let counts := reqs.zipIdx.map fun (_, i) => (is.filter (· == i)).length
  let multOk := (reqs.zip counts).all fun (r, n) =>
    n ≤ 1 || (n == 2 && (match r.beh with | .getBody _ | .always _ | .getBodyThen _ _ | .uploadThenEvents _ | .echoUpload => true | _ => false))
  -- I3: bodies seen equal bodies sent; a second call sees the complete body
  let bodiesOk := calls.all fun call =>
    match call.splitOn ":" with
    | [_, p, b] =>
      if b == "P" then true else
      match reqs.find? (fun r => r.path == p), decBytes (b.drop 1).toString with
      | some r, some seen =>
        -- chunked bodies are never delivered; a body of undeclared length runs to the end of the stream
        r.framing == "c" || seen == r.body || ((r.framing == "u" || r.framing == "v") && r.body.isPrefixOf seen) ||
          (cut && (r.framing == "u" || r.framing == "v") && seen.isPrefixOf r.body)
      | _, _ => false
    | _ => false
  let twiceOk := (reqs.zipIdx.all fun (r, i) =>
    let cs := calls.filter fun c => idxOf c == some i
    match cs with
    | [a, b] => (a.splitOn ":").getLast? == some "P" && (b.splitOn ":").getLast? != some "P"
    | _ => true)
  (if okIdx then [] else ["call-for-unknown-request"]) ++
  (if sorted then [] else ["calls-out-of-order"]) ++
  (if multOk then [] else ["handler-run-count"]) ++
  (if bodiesOk then [] else ["body-differs-from-bytes-sent"]) ++
  (if twiceOk then [] else ["second-run-without-complete-body"]) ++
  -- a response whose body file is missing or shorter than declared is cut off after its head (C08): the wire then ends
  -- inside that response, and the structural clauses below do not apply (the exact bytes are compared with the model)
  let faultyFile := reqs.any fun r => match r.beh with
    | .file _ declared actual => actual.isNone || actual.getD 0 < declared
    | .eventsThenOversize _ => true
    | _ => false
  (match ConnContract.responses (wire.length + 1) wire [] with
   | none => if faultyFile then [] else ["wire-not-a-sequence-of-responses"]
   | some rs =>
     let finals := rs.filter fun p => p.code / 100 != 1
     -- I4: the j-th final response belongs to the j-th request
     let matchOk := (finals.zip reqs).all fun (p, r) =>
       let body := p.body
       let mark := str r.path
       ConnContractInfix mark body || p.code ≥ 400 || (match r.beh with | .file .. => true | .echoUpload => true | _ => false)
     -- I5: nothing after an error / 4xx / 5xx response
     let closedOk := match finals.span (fun p => p.code < 400) with
       | (_, _ :: after) => after.isEmpty
       | _ => true
     -- I6: at most one final response per request
     let countOk := finals.length ≤ reqs.length
     -- a dropped or panicking request: drop ⇒ no response for it and nothing after
     let dropOk := (reqs.zipIdx.all fun (r, i) =>
       if r.beh == .drop && is.contains i then finals.length ≤ i else true)
     let panicOk := (reqs.zipIdx.all fun (r, i) =>
       if r.beh == .panic && is.contains i then (match finals[i]? with | some p => p.code == 500 | none => false) else true)
     -- every 5xx response that is sent is marked `connection: close` (C20)
     let closeOk := finals.all fun p => p.code / 100 != 5 || p.fields.contains (b!"connection", b!"close")
     (if closeOk then [] else ["5xx-without-connection-close"]) ++
     (if matchOk then [] else ["response-for-wrong-request"]) ++
     (if closedOk then [] else ["bytes-after-error-response"]) ++
     (if countOk then [] else ["more-responses-than-requests"]) ++
     (if dropOk then [] else ["response-after-drop"]) ++
     (if panicOk then [] else ["panic-without-500"]))
where
  ConnContractInfix (needle hay : Bytes) : Bool :=
    (List.range (hay.length + 1)).any fun i => needle.isPrefixOf (hay.drop i)

/-- C09 (single-request scenarios `POST … g<M>`): the boundary table, from the property statement. -/
def sizeCheck (small : Nat) (cache : Bool) (reqs : List SReq) (calls0 : List String) (wire : Bytes) (diskFails : Bool := false) : List String :=
  match reqs with
  | r :: _ =>
    -- (judged on the first request; requests that follow on the same connection have their own calls)
    let calls := calls0.filter fun c => match c.splitOn ":" with | [_, p, _] => p == r.path | _ => true
    match r.beh with
    | .getBody m =>
      let declared := r.framing == "k" || r.framing == "e" || r.framing.startsWith "d" || r.framing.startsWith "f"
      let len := if r.framing.startsWith "d" || r.framing.startsWith "f" then (r.framing.drop 1).toString.toNat?.getD 0 else r.body.length
      let complete := len == r.body.length
      let finals := ((ConnContract.responses (wire.length + 1) wire []).getD []).filter (·.code / 100 != 1)
      let code := (finals.head?.map (·.code)).getD 0
      let pendingCalls := (calls.filter fun c => (c.splitOn ":").getLast? == some "P").length
      let bodyCalls := calls.length - pendingCalls
      if declared && len ≤ small then
        -- handed over in memory without asking
        (if pendingCalls == 0 then [] else ["small-body-not-delivered-directly"]) ++
        (if complete && bodyCalls != 1 then ["small-body-handler-runs"] else [])
      else if !cache then
        (if pendingCalls == 1 && bodyCalls == 0 && code == 500 then [] else ["large-body-without-cache-dir"])
      else if declared && len == 0 then []   -- a declared empty body is "no body"
      else if diskFails && len ≤ m then
        -- the body could not be saved: it is never handed over, and the fault is the server's
        (if pendingCalls == 1 && bodyCalls == 0 && code / 100 == 5 then [] else ["accepted-despite-disk-failure"])
      else if len ≤ m then
        (if pendingCalls == 1 then [] else ["handler-not-asked-first"]) ++
        (if complete && !(bodyCalls == 1 && code == 200) then ["body-within-limit-not-accepted"] else [])
      else
        (if pendingCalls == 1 && bodyCalls == 0 then [] else ["second-run-on-oversized-body"]) ++
        (if code == 413 then [] else ["oversized-body-not-413"])
    | _ => []
  | [] => []

def handle (tag : String) (args : List String) (obs : String) : String :=
  match args with
  | [small, cache, sched0, reqsS] =>
    -- `L0:` / `L1:`: the application's logger is dead / stalled — no effect on what the connection must do
    let _sched := if sched0.startsWith "L0:" || sched0.startsWith "L1:" then (sched0.drop 3).toString else sched0
    match (splitNonEmpty reqsS ";").mapM parseReq, small.toNat? with
    | some reqs, some s =>
      let full := (reqs.map reqBytes).flatten
      -- `cut<N>`: the client sends only the first N bytes and goes away
      -- `busy<N>`: the same, while every thread of the handler pool is taken by other connections
      let all := if _sched.startsWith "cut" then full.take ((_sched.drop 3).toString.toNat?.getD full.length)
        else if _sched.startsWith "busy" then full.take ((_sched.drop 4).toString.toNat?.getD full.length)
        -- `rst<N>`: the first N bytes, then the client resets the connection (it never reads: its transcript is empty)
        else if _sched.startsWith "rst" then full.take ((_sched.drop 3).toString.toNat?.getD full.length) else full
      let cfg : Cfg := { smallBodyLen := s, cacheDir := cache != "0", fs := { createFails := cache == "2", writeFails := cache == "3" } }
      let (c0, calls0) := handleConn false C05.simpleUrl cfg (handlerOf reqs) (max 64 (reqs.length + 8))
        { input := all, inputErr := _sched.startsWith "rst" } []
      -- A failing disk AND a client that sends less than it declared: two faults in one upload.  The file writes are
      -- pipelined, so whether the write error surfaces before the stream ends is a matter of timing: `ErrorSavingFile`
      -- (500) and `Truncated` (400) are both right.  The model offers both; what is compared is the one that was observed.
      let twoFaults := cache == "3" && reqs.any fun r => (r.framing.startsWith "d" || r.framing.startsWith "f") &&
        r.body.length < (r.framing.drop 1).toString.toNat?.getD 0
      let (c1, calls1') := if twoFaults then
          handleConn false C05.simpleUrl { cfg with fs := {} } (handlerOf reqs) (max 64 (reqs.length + 8)) { input := all } []
        else (c0, calls0)
      let useAlt := twoFaults && ((obsGet obs "wire").bind decBytes) == some c1.wire
      let (c, calls1) := if useAlt then (c1, calls1') else (c0, calls0)
      -- `par3`: three connections send the same bytes; the merged call log is compared sorted
      let calls := calls1
      -- The server closed while client bytes were still unread: the kernel answers with a reset, and a
      -- reset may discard the tail of what the server had written (TCP, not servlin).  Then, and only
      -- then, a transcript that is a proper prefix of the expected one is accepted.
      let obsWire := (obsGet obs "wire").bind decBytes
      -- (not in the schedules that send a request only after the previous answer has been read: there the server never
      --  holds unread client bytes when it closes, so nothing can be lost to a reset)
      let oneAtATime := _sched == "pingpong" || _sched == "linger" || _sched == "wait100"
      let tailLost := match obsWire with
        | some w => !oneAtATime && !c.input.isEmpty && w.length < c.wire.length && w.isPrefixOf c.wire
        | none => false
      let isRst := _sched.startsWith "rst"
      let shownWire := if tailLost || isRst then obsWire.getD c.wire else c.wire
      let callStrs := calls.map showCall
      let callStrs := if _sched == "par3" then (callStrs ++ callStrs ++ callStrs).mergeSort (fun a b => a ≤ b) else callStrs
      -- `hold`: the client keeps its sending side open; the answer arrives early iff the server does not
      -- need the end of the stream: an over-limit body of undeclared length is refused after M+1 bytes
      let earlyS :=
        if _sched != "hold" then "" else
        match reqs with
        | [r] =>
          match r.beh with
          | .getBody m => if (r.framing == "u" || r.framing == "v") && r.body.length > m && cache != "0" then " early=1" else " early=0"
          | _ => " early=0"
        | _ => " early=0"
      -- `linger` / `busy`: files still present once a request has been answered (connection still open) or abandoned
      let outlivedS := if _sched == "linger" || _sched.startsWith "busy" then s!" outlived={c.live.length}" else ""
      let model := s!"calls={"|".intercalate callStrs} wire={encBytes shownWire} files={c.live.length}{earlyS}{outlivedS}"
      let verdict :=
        if obs == "PANIC" then "FAIL:panic:" else
        if obs == "no-prlimit" then "free" else
        match obsGet obs "calls", obsWire, obsGet obs "files" with
        | some cs, some wire, some files =>
          let obsCalls := splitNonEmpty cs "|"
          -- par3: judge one connection's share of the merged log
          let parOk := _sched != "par3" || obsCalls == callStrs
          let obsCalls := if _sched == "par3" then calls1.map showCall else obsCalls
          let fails := (if parOk then [] else ["concurrent-connections-interfere"]) ++
            (if isRst then [] else exchangeCheck reqs obsCalls (if tailLost then c.wire else wire) (_sched.startsWith "cut" || _sched.startsWith "busy")) ++
            (if files == "0" then [] else ["temp-file-left-behind"]) ++
            -- everything was sent and nothing can have been lost to a reset: every request the model answers is answered
            (if isRst || tailLost || _sched.startsWith "cut" || _sched.startsWith "busy" then [] else
              let nFinals := fun (w : Bytes) => (((ConnContract.responses (w.length + 1) w []).getD []).filter (·.code / 100 != 1)).length
              if nFinals wire < nFinals c.wire && (ConnContract.responses (c.wire.length + 1) c.wire []).isSome then ["request-not-answered"] else []) ++
            -- the disk failed while an upload was saved (cache = 3) and the client sent everything it declared: whatever is
            -- answered is a 5xx, never a 4xx (C20)
            (if cache == "3" && !(reqs.any fun r => r.framing.startsWith "d" || r.framing.startsWith "f") && (((ConnContract.responses (wire.length + 1) wire []).getD []).filter (·.code / 100 != 1)).any (·.code / 100 == 4)
               then ["server-fault-answered-as-client-error"] else []) ++
            (if outlivedS != "" && obsGet obs "outlived" != some "0" then ["temp-file-outlives-its-request"] else []) ++
            (if _sched == "hold" && earlyS != "" && obsGet obs "early" != some (earlyS.drop 7).toString then
               (if earlyS == " early=1" then ["over-limit-body-read-past-limit"] else ["answered-before-end-of-body"]) else []) ++ (if tag == "c09" then sizeCheck s (cache != "0") reqs obsCalls wire (cache == "3") else [])
          if fails.isEmpty then (if tailLost then "ok-tail-lost-to-reset" else "ok") else "FAIL:" ++ ",".intercalate fails ++ ":"
        | _, _, _ => "FAIL:unparsable-observation:"
      model ++ "\t" ++ verdict
    | _, _ => "bad-case\tFAIL:bad-case"
  | _ => "bad-case\tFAIL:bad-case"

end Drv.C04
end Servlin
