import ServlinVerif.Driver.Req
import ServlinVerif.Model.Cookie
import ServlinVerif.Model.Time
import ServlinVerif.Spec.Rfc6265
/- Driver for suites c15r (Cookie request headers) and c15s (Set-Cookie formatting). -/
namespace Servlin
namespace Drv.C15
open CookieModel

def optHexArg (s : String) : Option (Option Bytes) :=
  if s == "-" then some none else (hexDecode s).map some

def flagArg (s : String) (dflt : Bool) : Bool := if s == "-" then dflt else s == "1"

def parseCookie (a : List String) : Option Cookie :=
  match a with
  | [n, v, d, p, secs, nanos, ho, se, ss, ex] => do
    let name ← hexDecode n
    let value ← hexDecode v
    let d ← optHexArg d
    let p ← optHexArg p
    let (age, sub) ← if secs == "-" then some (30 * 24 * 60 * 60, false) else do
      pure (← secs.toNat?, (← nanos.toNat?) > 0)
    let expires ← if ex == "-" then some none else do
      let t ← ex.toNat?
      let dt ← Time.new t
      pure (some (str (Time.iso8601 dt)))
    let sameSite := if ss == "lax" then SameSite.lax else if ss == "none" then SameSite.none else SameSite.strict
    pure { name, value, domain := d.getD [], path := p.getD [], maxAge := age, maxAgeSubsec := sub,
           httpOnly := flagArg ho true, secure := flagArg se true, sameSite, expires }
  | _ => none

def lowerB (s : Bytes) : Bytes := s.map toLower

/-- c15s: §5.2 parse of the emitted field vs what was set (for RFC-valid components). -/
def handleSet (args : List String) (obs : String) : String :=
  match parseCookie args with
  | none => "bad-case\tFAIL:bad-case"
  | some c =>
    let r := hexEncode (render c)
    let model := s!"n=2 {r},{r}"
    let tokenOk := c.name ≠ [] && c.name.all Grammar.tchar
    let octet := fun (b : UInt8) => b == 33 || (35 ≤ b && b ≤ 43) || (45 ≤ b && b ≤ 58) || (60 ≤ b && b ≤ 91) || (93 ≤ b && b ≤ 126)
    let avOk := fun (s : Bytes) => s.all (fun b => 32 ≤ b && b ≤ 126 && b != 59) && s.head? != some 32 && s.getLast? != some 32
    let valid := tokenOk && c.value.all octet && avOk c.domain && c.domain.head? != some 46 &&
      c.domain == lowerB c.domain && avOk c.path && (c.path == [] || c.path.head? == some 47)
    let verdict :=
      if !valid then "free" else
      match obs.splitOn " " with
      | [n, vals] =>
        match vals.splitOn ",", n with
        | [v1, v2], "n=2" =>
          match hexDecode v1 with
          | some emitted =>
            match Rfc6265.parseSetCookie emitted with
            | none => "FAIL:set-cookie-ignored-by-client:"
            | some p =>
              let expAge : Option Int := if c.maxAge > 0 || c.maxAgeSubsec then some (c.maxAge : Int) else none
              let expSame := match c.sameSite with | .strict => b!"strict" | .lax => b!"lax" | .none => b!"none"
              let fails :=
                (if v1 == v2 then [] else ["not-one-field-per-cookie"]) ++
                (if p.name == c.name then [] else ["wrong-name"]) ++
                (if p.value == c.value then [] else ["wrong-value"]) ++
                (if p.domain == (if c.domain == [] then none else some c.domain) then [] else ["wrong-domain"]) ++
                (if p.path == (if c.path == [] then none else some c.path) then [] else ["wrong-path"]) ++
                (if p.maxAge == expAge then [] else ["wrong-max-age"]) ++
                (if p.secure == c.secure then [] else ["wrong-secure"]) ++
                (if p.httpOnly == c.httpOnly then [] else ["wrong-httponly"]) ++
                (if p.sameSite == some expSame then [] else ["wrong-samesite"])
              Req.verdictOf fails
          | none => "FAIL:unparsable-observation:"
        | _, _ => "FAIL:not-one-field-per-cookie:"
      | _ => if obs == "PANIC" then "FAIL:panic:" else "FAIL:unparsable-observation:"
    model ++ "\t" ++ verdict

/-- c15r: RFC 6265 reading of the Cookie fields vs the map handed to the handler. -/
def handleReq (args : List String) (obs : String) : String :=
  match Req.parseCase args with
  | none => "bad-case\tFAIL:bad-case"
  | some c =>
    let model := Req.modelOutcome c
    let headEnd := (ReadSpec.firstBlankLine c.all).getD c.all.length
    let (_, fields) := Framing.fieldsOfHead (c.all.take headEnd)
    let values := Framing.valuesOf fields "cookie"
    let inDomain := values.all fun v => v.all fun b => (33 ≤ b && b ≤ 126) || b == 32 || b == 9
    let verdict :=
      if !inDomain then "free" else
      match Rfc6265.pairs values with
      | none => if obs.startsWith "err:MalformedCookieHeader " then "ok" else "FAIL:segment-without-equals-accepted:"
      | some ps =>
        if !obs.startsWith "ok " then "FAIL:valid-cookies-rejected:" else
        let names := (ps.map (·.1)).eraseDups
        let expected := Req.sortCookies (names.filterMap fun n => (Rfc6265.lookup ps n).map (n, ·))
        let expS := ",".intercalate (expected.map fun p => hexEncode p.1 ++ "=" ++ hexEncode p.2)
        if Req.obsField obs "ck" == some expS then "ok" else "FAIL:wrong-cookie-map:" ++ expS
    model ++ "\t" ++ verdict

end Drv.C15
end Servlin
