import ServlinVerif.Driver.Util
import ServlinVerif.Spec.Calendar
/- Driver for suites c16n (`DateTime::new` + `iso8601_utc`) and c16a (`Add<Duration>`). -/
namespace Servlin
namespace Drv.C16
open Time Calendar

def showDT (dt : DT) : String :=
  s!"{dt.year} {dt.month} {dt.day} {dt.hour} {dt.min} {dt.sec}"

def parseDT (fs : List String) : Option DT :=
  match fs.mapM String.toNat? with
  | some [y, mo, d, h, mi, s] => some ⟨y, mo, d, h, mi, s⟩
  | _ => none

def validB (dt : DT) : Bool := decide (Valid dt)

/-- c16n `<secs>` ⇒ `y m d h mi s iso`. -/
def handleNew (args : List String) (obs : String) : String :=
  match args.mapM String.toNat? with
  | some [s] =>
    let model := match Time.new s with
      | some dt => showDT dt ++ " " ++ iso8601 dt
      | none => "PANIC"
    let verdict :=
      match obs.splitOn " " with
      | [y, mo, d, h, mi, sc, iso] =>
        match parseDT [y, mo, d, h, mi, sc] with
        | some dt =>
          let fails := (if validB dt then [] else ["new-invalid-date"]) ++
            (if toSecs dt == s then [] else ["new-wrong-instant"]) ++
            (if iso == iso8601 dt ∧ (s ≥ 253402300800 ∨ iso.length == 20) then [] else ["format"])
          if fails.isEmpty then "ok" else "FAIL:" ++ ",".intercalate fails ++ ":"
        | none => "FAIL:new-unparsable:"
      | _ => "FAIL:new-unparsable:" ++ obs
    model ++ "\t" ++ verdict
  | _ => "bad-case\tFAIL:bad-case"

/-- c16f `<secs> <nanos>` ⇒ `<SystemTime::iso8601_utc> <cookie Expires> <log line time>`: each is the rendering of the
    civil date-time of `secs` (the sub-second part never matters). -/
def handleFunnels (args : List String) (obs : String) : String :=
  match args.mapM String.toNat? with
  | some [s, n] =>
    let iso := match Time.new s with
      | some dt => iso8601 dt
      | none => "PANIC"
    -- a cookie whose expiry is exactly the epoch has no Expires attribute ("not set"); log lines carry `time_ns` as u64
    -- nanoseconds, which the library documents to panic from the year 2554 on: that funnel is exercised below it
    let cookie := if s == 0 ∧ n == 0 then "-" else iso
    let logged := if s * 1000000000 + n > 18446744073709551615 then "-" else iso
    let model := s!"{iso} {cookie} {logged}"
    let verdict :=
      match obs.splitOn " " with
      | [a, b, c] =>
        let fails := (if a == iso then [] else ["system-time-rendering"]) ++ (if b == cookie then [] else ["cookie-expires-rendering"]) ++
          (if c == logged then [] else ["log-line-time-rendering"])
        if fails.isEmpty then "ok" else "FAIL:" ++ ",".intercalate fails ++ ":"
      | _ => "FAIL:unparsable:" ++ obs
    model ++ "\t" ++ verdict
  | _ => "bad-case\tFAIL:bad-case"

/-- c16a `<y m d h mi s> <dur>` ⇒ `y m d h mi s`. -/
def handleAdd (args : List String) (obs : String) : String :=
  match args with
  | [dts, dur] =>
    -- `<secs>+<nanos>`: the sub-second part of the duration does not move a time that names a whole second
    match parseDT (dts.splitOn " "), ((dur.splitOn "+").head?.getD "").toNat? with
    | some dt, some d =>
      let model := match Time.add dt d with
        | some r => showDT r
        | none => "PANIC"
      let verdict :=
        if !validB dt then "free" else
        match parseDT (obs.splitOn " ") with
        | some r =>
          let fails := (if validB r then [] else ["add-invalid-date"]) ++
            (if toSecs r == toSecs dt + d then [] else ["add-wrong-instant"])
          if fails.isEmpty then "ok" else "FAIL:" ++ ",".intercalate fails ++ ":"
        | none => "FAIL:add-unparsable:" ++ obs
      model ++ "\t" ++ verdict
    | _, _ => "bad-case\tFAIL:bad-case"
  | _ => "bad-case\tFAIL:bad-case"

end Drv.C16
end Servlin
