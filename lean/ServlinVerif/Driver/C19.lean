import ServlinVerif.Driver.Util
import ServlinVerif.Model.LogFiles
/- Driver for suites c19s (PrefixFileSet op sequences, synthetic clocks) and c19w (writer thread). -/
namespace Servlin
namespace Drv.C19
open LogFiles

def sortStrings (l : List String) : List String := (l.toArray.qsort (· < ·)).toList

def sumLens (fs : List PFile) : Nat := (fs.map (·.len)).sum

/-! ### c19s -/

structure Named where
  name : String
  f : PFile

def parseInit (s : String) : Option (List Named) :=
  (splitNonEmpty s ",").zipIdx.mapM fun (x, i) =>
    match x.splitOn ":" with
    | [n, len, mt] => do pure ⟨n, ⟨i, ← mt.toNat?, ← len.toNat?⟩⟩
    | _ => none

def listing (names : List Named) (files : List PFile) : String :=
  " ".intercalate (sortStrings ("other.txt" :: (names.filter fun n => files.any (·.id == n.f.id)).map fun n => "app.log." ++ n.name))

def snap (names : List Named) (s : FileSet) : String := s!"{s.len}[{listing names s.files}]"

/-- Model run: the repaired code (`legacy = false`). -/
def runSet (names : List Named) (ops : List String) : List String :=
  let init : FileSet := { files := names.map (·.f), len := sumLens (names.map (·.f)) }
  let rec go (fuel : Nat) (names : List Named) (s : FileSet) (ops : List String) (acc : List String) : List String :=
    match fuel, ops with
    | 0, _ => acc.reverse
    | _, [] => acc.reverse
    | fuel + 1, op :: rest =>
      match op.splitOn ":" with
      | ["push", n, len, mt] =>
        let f : PFile := ⟨names.length, mt.toNat!, len.toNat!⟩
        let names := names ++ [⟨n, f⟩]
        let s := push false s f
        go fuel names s rest (("ok:" ++ snap names s) :: acc)
      | ["del"] =>
        match deleteOldest false s with
        | none => ("PANIC" :: acc).reverse
        | some (s, _) => go fuel names s rest (("ok:" ++ snap names s) :: acc)
      | ["age", now, dur] =>
        match deleteOlderThan false (now.toNat! - dur.toNat!) s.files.length s [] with
        | none => ("PANIC" :: acc).reverse
        | some (s, _) => go fuel names s rest (("ok:" ++ snap names s) :: acc)
      | ["over", mx] =>
        match deleteWhileOver false mx.toNat! s.files.length s [] with
        | none => ("PANIC" :: acc).reverse
        | some (s, _) => go fuel names s rest (("ok:" ++ snap names s) :: acc)
      | _ => ("bad-op" :: acc).reverse
  go (ops.length + 1) names init ops [snap names init]

/-- Observed `st:len[a b c]` → (status, len, names of prefix files, other.txt present). -/
def parseSnap (s : String) : Option (String × Nat × List String × Bool) :=
  let (st, rest) := match s.splitOn ":" with
    | [a, b] => (a, b)
    | _ => ("", s)
  match rest.splitOn "[" with
  | [len, l] =>
    let names := splitNonEmpty ((l.dropEnd 1).toString) " "
    len.toNat?.map fun n => (st, n, (names.filter (·.startsWith "app.log.")).map (fun x => (x.drop 8).toString), names.contains "other.txt")
  | _ => none

/-- Oracle: the bookkeeping contract, checked on the observation alone. -/
def verdictSet (init : List Named) (ops : List String) (obs : String) : String := Id.run do
  let steps := obs.splitOn ";"
  let mut known : List (String × Nat × Nat) := init.map fun n => (n.name, n.f.len, n.f.mtime)   -- name, len, mtime
  let mut cur : List String := init.map (·.name)
  let mut fails : List String := []
  let lenOf := fun (known : List (String × Nat × Nat)) (n : String) => ((known.find? (·.1 == n)).map (·.2.1)).getD 0
  let mtOf := fun (known : List (String × Nat × Nat)) (n : String) => ((known.find? (·.1 == n)).map (·.2.2)).getD 0
  let mut i := 0
  for st in steps do
    let op := if i == 0 then "new" else (ops[i - 1]?).getD "?"
    i := i + 1
    if st == "PANIC" then
      if op == "del" ∧ cur.isEmpty then return "free" else
      fails := fails ++ ["panic"]
      break
    match parseSnap st with
    | none => return "FAIL:unparsable:" ++ st
    | some (status, len, names, other) =>
      if !other then fails := fails ++ ["unrelated-file-deleted"]
      if status == "err" then fails := fails ++ ["io-error"]
      let parts := op.splitOn ":"
      let before := if parts.head? == some "push" then cur ++ [parts[1]!] else cur
      if parts.head? == some "push" then known := known ++ [(parts[1]!, parts[2]!.toNat!, parts[3]!.toNat!)]
      -- the set knows exactly the files with the prefix; its total is their sum
      if len != (names.map (lenOf known)).sum then fails := fails ++ ["len-not-sum-of-files"]
      -- what is left is a most-recent suffix of what was there (oldest deleted first)
      let sorted := (before.toArray.qsort (fun a b => mtOf known a < mtOf known b)).toList
      let k := sorted.length - names.length
      if sortStrings (sorted.drop k) != sortStrings names then fails := fails ++ ["not-oldest-first"]
      else
        let total := fun (l : List String) => (l.map (lenOf known)).sum
        match parts with
        | ["new"] | ["push", _, _, _] => if k != 0 then fails := fails ++ ["file-lost"]
        | ["del"] => if k != 1 then fails := fails ++ ["delete-oldest-count"]
        | ["over", mx] =>
          if total names > mx.toNat! then fails := fails ++ ["still-over-max"]
          if k > 0 ∧ total (sorted.drop (k - 1)) ≤ mx.toNat! then fails := fails ++ ["deleted-more-than-needed"]
        | ["age", now, dur] =>
          let mn := now.toNat! - dur.toNat!
          if names.any (fun n => mtOf known n < mn) then fails := fails ++ ["older-than-keep-age"]
          if (sorted.take k).any (fun n => mtOf known n ≥ mn) then fails := fails ++ ["deleted-young-file"]
        | _ => pure ()
      cur := names
  if fails.isEmpty then "ok" else "FAIL:" ++ ",".intercalate fails.eraseDups ++ ":"

def handleSet (args : List String) (obs : String) : String :=
  match args with
  | [initS, opsS] =>
    match parseInit initS with
    | none => "bad-case\tFAIL:bad-case"
    | some init =>
      let ops := splitNonEmpty opsS ";"
      ";".intercalate (runSet init ops) ++ "\t" ++ verdictSet init ops obs
  | _ => "bad-case\tFAIL:bad-case"

/-! ### c19w -/

def field (obs key : String) : String :=
  match (obs.splitOn " ").find? (·.startsWith (key ++ "=")) with
  | some f => (f.drop (key.length + 1)).toString
  | none => ""

def t0 : Nat := 1000000000   -- ms

/-- Labels of the lines of a file created in the segment that starts at global event offset `off`. -/
def labels (off : Nat) (evs : List Nat) : List String := evs.map fun e => if e == 0 then "S" else toString (off + e)

structure Seg where
  existing : List PFile                  -- all files present, mtime order
  lines : List (Nat × List String)       -- id ↦ line labels (files created so far, all runs)
  clock : Nat
  off : Nat

def runWriter (cfg : Cfg) (startLen : Nat) (old : List PFile) (segs : List (List Nat)) : Option Seg :=
  segs.foldlM (fun (st : Seg) (sizes : List Nat) => do
    let w ← start false cfg st.existing startLen st.clock
    let evs := sizes.zipIdx.map fun (sz, i) => (sz, st.clock + 1 + i)
    let w ← runEvents false cfg w evs
    let clock := st.clock + sizes.length + 2
    let lines := st.lines ++ w.contents.map fun (id, es) => (id, labels st.off es)
    pure { existing := w.set.files ++ [⟨w.curId, clock - 1, w.curLen⟩], lines, clock, off := st.off + sizes.length })
    { existing := old, lines := [], clock := t0, off := 0 }

def renderFiles (nOld : Nat) (st : Seg) : String :=
  "/".intercalate (st.existing.map fun f =>
    if f.id < nOld then s!"X{f.id}:{f.len}"
    else s!"L{".".intercalate (((st.lines.find? (·.1 == f.id)).map (·.2)).getD [])}:{f.len}")

def verdictWriter (mw mk ka : Nat) (old : List (Nat × Nat)) (startLen : Nat) (sizes : List Nat) (obs : String) : String := Id.run do
  if obs == "PANIC" ∨ obs == "start-failed" then return "FAIL:writer-failed:" ++ obs
  let files := splitNonEmpty (field obs "files") "/"
  let maxEv := sizes.foldl max startLen
  let mut fails : List String := []
  if field obs "done" != "1" then fails := fails ++ ["writer-stopped"]
  if field obs "unrelated" != "1" then fails := fails ++ ["unrelated-file-touched"]
  let mut ids : List Nat := []
  let mut total := 0
  let mut xs : List Nat := []
  for f in files do
    match f.splitOn ":" with
    | [d, len] =>
      let len := len.toNat!
      total := total + len
      if d.startsWith "X" then xs := xs ++ [(d.drop 1).toString.toNat!]
      else
        let ls := splitNonEmpty (d.drop 1).toString "."
        if ls.any (fun l => l == "PARTIAL" ∨ l == "?") then fails := fails ++ ["split-line"]
        let lens := ls.map fun l => if l == "S" then startLen else (sizes[l.toNat! - 1]?).getD 0
        if lens.sum != len then fails := fails ++ ["file-bytes-not-whole-lines"]
        if len > mw ∧ ls.length > 1 then fails := fails ++ ["file-over-max-write"]
        ids := ids ++ ls.filterMap String.toNat?
    | _ => fails := fails ++ ["unparsable"]
  -- surviving lines: a contiguous run ending at the last event accepted
  let n := sizes.length
  let first := n + 1 - ids.length
  if ids != (List.range ids.length).map (· + first) then fails := fails ++ ["lines-lost-duplicated-or-reordered"]
  -- disk use: at most one event over the keep-size, at every sampled moment
  -- (a keep-size below max_write_bytes cannot bind the file being written)
  let budget := max mk mw + maxEv
  if total > budget ∨ (field obs "peak").toNat! > budget then fails := fails ++ ["over-keep-size"]
  -- files of earlier runs: deleted oldest first, and before any line of this run
  let oldByAge := (old.zipIdx.toArray.qsort (fun a b => a.1.2 > b.1.2 || (a.1.2 == b.1.2 && a.2 < b.2))).toList.map (·.2)
  if xs != oldByAge.drop (oldByAge.length - xs.length) then fails := fails ++ ["not-oldest-first"]
  if !xs.isEmpty ∧ ids.length < n then fails := fails ++ ["not-oldest-first"]
  if ka > 0 ∧ n > 0 ∧ xs.any (fun k => ((old[k]?).map (·.2)).getD 0 > ka + 600) then fails := fails ++ ["older-than-keep-age"]
  if fails.isEmpty then "ok" else "FAIL:" ++ ",".intercalate fails.eraseDups ++ ":"

def handleWriter (args : List String) (obs : String) : String :=
  match args with
  | [mw, mk, ka, ex, pads] =>
    match mw.toNat?, mk.toNat?, ka.toNat?,
      -- (`R`: the writer was given a relative prefix and the working directory changed afterwards: no effect)
      ((splitNonEmpty ex ",").filter (· != "R")).mapM (fun x => match x.splitOn ":" with
        | [l, a] => do pure (← l.toNat?, ← a.toNat?)
        | _ => none) with
    | some mw, some mk, some ka, some old =>
      let startLen := (field obs "start").toNat!
      let sizes := ((splitNonEmpty (field obs "sizes") ",").map String.toNat!)
      let segLens := (pads.splitOn "|").map fun s => (splitNonEmpty s ",").length
      let segs := (segLens.foldl (fun (p : List (List Nat) × List Nat) n => (p.1 ++ [p.2.take n], p.2.drop n)) ([], sizes)).1
      let cfg : Cfg := { maxWrite := mw, maxKeep := mk, keepAge := if ka == 0 then none else some (ka * 1000), maxWriteAge := 24 * 3600 * 1000 }
      let oldFiles : List PFile := (old.zipIdx.map fun ((len, age), i) => (⟨i, t0 - age * 1000, len⟩ : PFile))
      -- (files with the same time: the lower number goes first; the harness shows the survivors of such a group under its highest numbers)
      let oldSorted := (oldFiles.toArray.qsort (fun a b => a.mtime < b.mtime || (a.mtime == b.mtime && a.id < b.id))).toList
      let model := match runWriter cfg startLen oldSorted segs with
        | none => "PANIC"
        | some st => s!"start={startLen} sizes={field obs "sizes"} files={renderFiles old.length st} done=1 peak={field obs "peak"} unrelated=1"
      model ++ "\t" ++ verdictWriter mw mk ka old startLen sizes obs
    | _, _, _, _ => "bad-case\tFAIL:bad-case"
  | _ => "bad-case\tFAIL:bad-case"

end Drv.C19
end Servlin
