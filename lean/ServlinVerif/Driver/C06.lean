import ServlinVerif.Driver.C20
import ServlinVerif.Model.Serialize
import ServlinVerif.Model.Event
import ServlinVerif.Spec.RespParser
/- Driver for suites c06 (serialisation round trip) and c08 (fault injection at the serialiser). -/
namespace Servlin
namespace Drv.C06
open Serialize

def ctypeOf (s : String) : Option (Option Bytes) :=
  if s == "N" then some none
  else if s.startsWith "S:" || s.startsWith "T:" then (hexDecode (s.drop 2).toString).map some
  else if s.startsWith "K:" then
    let table : List (String × String) := [
      ("Css", "text/css; charset=UTF-8"), ("Csv", "text/csv; charset=UTF-8"), ("EventStream", "text/event-stream"),
      ("FormUrlEncoded", "application/x-www-form-urlencoded; charset=UTF-8"), ("Gif", "image/gif"),
      ("Html", "text/html; charset=UTF-8"), ("JavaScript", "text/javascript; charset=UTF-8"), ("Jpeg", "image/jpeg"),
      ("Json", "application/json; charset=UTF-8"), ("Markdown", "text/markdown; charset=UTF-8"),
      ("MultipartForm", "multipart/form-data"), ("OctetStream", "application/octet-stream"), ("Pdf", "application/pdf"),
      ("PlainText", "text/plain; charset=UTF-8"), ("Png", "image/png"), ("Svg", "image/svg+xml; charset=UTF-8")]
    (table.find? (·.1 == (s.drop 2).toString)).map (fun p => some (str p.2))
  else none

def parseEvents (s : String) : Option (List EventModel.Event) :=
  (splitNonEmpty s ",").mapM fun e =>
    if e.startsWith "m" then (hexDecode (e.drop 1).toString).map .message
    else match ((e.drop 1).toString).splitOn "." with
      | [t, d] => do pure (.custom (← hexDecode t) (← hexDecode d))
      | _ => none

/-- Pieces an event stream delivers: one read per queued event; a zero-length encoding reads as
    end of stream; an encoding larger than the read slice is a read error. -/
def eventSource (evs : List EventModel.Event) : Source :=
  let encs := evs.map EventModel.encode
  let pre := encs.takeWhile (fun e => e ≠ [] && e.length ≤ Chunked.maxPiece)
  let stopped := encs.drop pre.length
  { pieces := pre, endsWithError := match stopped with | e :: _ => e ≠ [] | [] => false }

/-- `(body as given, body with intact source)`; for in-memory bodies both are the same. -/
def bodyOf (s : String) : Option (Body × Body × Bytes) :=
  let kind := (s.take 1).toString
  let rest := (s.drop 2).toString
  match kind with
  | "V" | "B" | "S" => (decBytes rest).map fun b => (Body.ofBytes b, Body.ofBytes b, b)
  | "F" | "T" =>
    match rest.splitOn ":" with
    | [d, actual] => do
      let n ← d.toNat?
      if actual == "missing" then pure (⟨some n, { openFails := true }⟩, ⟨some n, { openFails := true }⟩, [])
      else
        let a ← decBytes actual
        let b : Body := ⟨some n, { pieces := if a.isEmpty then [] else [a] }⟩
        pure (b, b, a.take n)
    | [d, actual, full] => do
      let n ← d.toNat?
      let f ← decBytes full
      let fb : Body := ⟨some n, { pieces := if f.isEmpty then [] else [f] }⟩
      if actual == "missing" then pure (⟨some n, { openFails := true }⟩, fb, f.take n)
      else
        let a ← decBytes actual
        pure (⟨some n, { pieces := if a.isEmpty then [] else [a] }⟩, fb, f.take n)
    | _ => none
  | "E" => do
    let evs ← parseEvents rest
    let src := eventSource evs
    pure (⟨none, src⟩, ⟨none, src⟩, src.pieces.flatten)
  | _ => none

def showRes : Except HttpError Unit → String
  | .ok _ => "ok"
  | .error e => "err:" ++ e.name

structure Case where
  resp : Response
  full : Response
  expectBody : Bytes
  close : Bool
  failAt : Option Nat

def parseCase (args : List String) : Option Case :=
  match args with
  | [code, ct, hs, body, close, _ws, fail, _pend] => do
    let code ← code.toNat?
    let ctype ← ctypeOf ct
    let headers ← C20.parseHeaders hs
    let (b, fb, eb) ← bodyOf body
    let failAt ← if fail == "-" then some none else fail.toNat?.map some
    pure { resp := { code, ctype, headers, body := b }, full := { code, ctype, headers, body := fb },
           expectBody := eb, close := close == "1", failAt }
  | _ => none

def modelOutcome (c : Case) : String :=
  let (w, r) := Serialize.write false c.resp c.close c.failAt
  let base := s!"w={encBytes w} r={showRes r} waf=0"
  match c.failAt with
  | none => base
  | some _ => base ++ " ref=" ++ encBytes (Serialize.intended false c.full c.close).1

def obsGet (obs key : String) : Option String :=
  (obs.splitOn " ").findSome? fun kv =>
    if kv.startsWith (key ++ "=") then some (kv.drop (key.length + 1)).toString else none

def lower (b : Bytes) : Bytes := b.map toLower

/-- c06: strict parse of the wire and comparison with what was set. -/
def handleC06 (args : List String) (obs : String) : String :=
  match parseCase args with
  | none => "bad-case\tFAIL:bad-case"
  | some c =>
    let model := modelOutcome c
    let r := c.resp
    let inDomain := 100 ≤ r.code && r.code ≤ 999 &&
      r.headers.all (fun h => Grammar.isToken h.name && h.value.all Grammar.fieldByte) &&
      (match r.ctype with | some t => t.all Grammar.fieldByte | none => true)
    let verdict :=
      if !inDomain then "free" else
      match obsGet obs "w" >>= decBytes, obsGet obs "r" with
      | some wire, some res =>
        let names := r.headers.map (fun h => lower h.name)
        let collide := (r.ctype.isSome && names.contains (b!"content-type")) ||
          names.contains (b!"content-length") || names.contains (b!"transfer-encoding")
        let fails : List String :=
          if collide then
            (if res.startsWith "err:Duplicate" then [] else ["duplicate-not-refused"]) ++
            (if wire.isEmpty then [] else ["bytes-written-before-refusal"])
          else
            match RespParser.parse wire with
            | .ok p =>
              let auto : List (Bytes × Bytes) :=
                (match r.ctype with | some t => [(b!"content-type", t)] | none => []) ++
                (if c.close then [(b!"connection", b!"close")] else []) ++
                (match r.body.len with
                 | some n => [(b!"content-length", str (toString n))]
                 | none => [(b!"transfer-encoding", b!"chunked")])
              (if res == "ok" then [] else ["write-failed"]) ++
              (if p.code == r.code then [] else ["wrong-code"]) ++
              (if p.fields == auto ++ r.headers.map (fun h => (h.name, h.value)) then [] else ["wrong-fields"]) ++
              (if p.body == c.expectBody then [] else ["wrong-body"]) ++
              (if p.rest.isEmpty then [] else ["trailing-bytes"])
            | .incomplete why => ["unparsable-incomplete(" ++ why.replace " " "-" ++ ")"]
            | .invalid why => ["unparsable-invalid(" ++ why.replace " " "-" ++ ")"]
        Req.verdictOf fails
      | _, _ => if obs == "PANIC" then "FAIL:panic:" else "FAIL:unparsable-observation:"
    model ++ "\t" ++ verdict
where
  Req.verdictOf (fails : List String) : String :=
    if fails.isEmpty then "ok" else "FAIL:" ++ ",".intercalate fails ++ ":"

/-- c08: whatever reached the writer is a prefix of the one correct serialisation; a cut is
    reported as an error; nothing is written after a failed write. -/
def handleC08 (args : List String) (obs : String) : String :=
  match parseCase args with
  | none => "bad-case\tFAIL:bad-case"
  | some c =>
    let model := modelOutcome c
    let verdict :=
      match obsGet obs "w" >>= decBytes, obsGet obs "r", obsGet obs "waf", obsGet obs "ref" >>= decBytes with
      | some wire, some res, some waf, some ref =>
        let fails :=
          (if wire.isPrefixOf ref then [] else ["not-a-prefix"]) ++
          (if wire.length < ref.length && res == "ok" then ["truncation-reported-ok"] else []) ++
          -- (a source that fails by itself — an event too large for the encoder's read slice — has no intact reference:
          --  everything before the failure is on the wire and the error is the right result)
          (if wire == ref && res != "ok" && c.failAt.all (fun k => k > ref.length) && !c.full.body.src.endsWithError then ["complete-reported-error"] else []) ++
          (if c.full.body.src.endsWithError && res == "ok" then ["source-failure-reported-ok"] else []) ++
          (if c.full.body.src.endsWithError && c.full.body.len.isNone &&
              (match ChunkDecoder.decode (wire.drop ((ReadSpec.firstBlankLine wire).getD 0 + 4)) with | .complete .. => true | _ => false)
            then ["failed-body-looks-complete"] else []) ++
          (if waf == "0" then [] else ["write-after-failure"])
        if fails.isEmpty then "ok" else "FAIL:" ++ ",".intercalate fails ++ ":"
      | _, _, _, _ => if obs == "PANIC" then "FAIL:panic:" else "FAIL:unparsable-observation:"
    model ++ "\t" ++ verdict

end Drv.C06
end Servlin
