import ServlinVerif.Driver.C06
import ServlinVerif.Model.EventChannel
import ServlinVerif.Spec.SseParser
/- Driver for suites c11 (API-call interleavings) and c11t (multi-threaded stress). -/
namespace Servlin
namespace Drv.C11
open EventChannel EventModel

def parseOp (s : String) : Option Op :=
  let k := (s.take 1).toString
  let rest := (s.drop 1).toString
  if k == "p" then some .poll
  else if k == "c" then rest.toNat?.map .clone
  else if k == "x" then rest.toNat?.map .disconnect
  else if k == "d" then rest.toNat?.map .drop
  else if k == "s" then
    match rest.splitOn ":" with
    | [i, e] => do
      let i ← i.toNat?
      let evs ← C06.parseEvents e
      let ev ← evs.head?
      pure (.send i ev)
    | _ => none
  else none

def flags (s : State) : String := String.ofList (s.senders.map fun b => if b then '1' else '0')

/-- Chunk data of a (possibly unfinished) chunked stream: (chunks, complete?) or `none` if invalid. -/
def chunks : Nat → Bytes → List Bytes → Option (List Bytes × Bool)
  | 0, _, _ => none
  | fuel + 1, inp, acc =>
    if inp.isEmpty then some (acc.reverse, false) else
    match ChunkDecoder.parseSize inp 0 false with
    | .ok 0 rest => if rest == [13, 10] then some (acc.reverse, true) else none
    | .ok n rest =>
      if rest.length < n + 2 then none
      else if (rest.drop n).take 2 == [13, 10] then chunks fuel (rest.drop (n + 2)) (rest.take n :: acc) else none
    | _ => none

def evType : Event → Bytes
  | .message _ => b!"message"
  | .custom t _ => t
def evData : Event → Bytes
  | .message d => d
  | .custom _ d => d

def handle (args : List String) (obs : String) : String :=
  match args with
  | [opsS] =>
    match (splitNonEmpty opsS ";").mapM parseOp with
    | none => "bad-case\tFAIL:bad-case"
    | some ops =>
      -- model
      let (final, fl) := ops.foldl (fun (p : State × List String) op =>
        let s' := step false p.1 op; (s', flags s' :: p.2)) (({} : State), [])
      let doneS := if final.done then (if final.failed then "rerr" else "ok") else "-"
      let model := s!"{",".intercalate fl.reverse} wire={encBytes final.wire} done={doneS}"
      -- oracle on the observation
      let verdict :=
        if obs == "PANIC" then "FAIL:panic:" else
        match obs.splitOn " wire=" with
        | [flS, rest] =>
          match rest.splitOn " done=" with
          | [w, dn] =>
            match decBytes w with
            | none => "FAIL:unparsable-observation:"
            | some wire =>
              let oflags := flS.splitOn ","
              -- events accepted while the sender reported connected (before and after the call)
              let accepted : List Event := ((ops.zip oflags).zip ("1" :: oflags)).filterMap fun ((op, after), before) =>
                match op with
                | .send i e =>
                  if (before.toList.getD i '0') == '1' && (after.toList.getD i '0') == '1' then some e else none
                | _ => none
              let lastFlags := oflags.getLast?.getD "1"
              let allGone := lastFlags.toList.all (· == '0')
              let endsWithPoll := ops.getLast? == some .poll
              match chunks (wire.length + 2) wire [] with
              | none => "FAIL:not-chunked:"
              | some (cs, complete) =>
                let perEvent := (cs.zip accepted).filterMap fun (c, e) =>
                  let parsed := Sse.parse (c ++ [10])
                  if parsed == [⟨evType e, evData e⟩] then none
                  else if evType e == [] || (evType e).contains 13 || (evType e).contains 10 then none   -- outside the property (type must be a non-empty line)
                  else if (evData e).contains 13 || (evData e).getLast? == some 10 || (evData e) == [] && parsed == [⟨evType e, []⟩] then some "event-data-line-breaks"
                  else some "event-altered"
                let fails : List String :=
                  perEvent.eraseDups ++
                  (if cs.length ≤ accepted.length then [] else ["event-duplicated-or-invented"]) ++
                  (if dn == "rerr" then ["oversize-event-aborts-stream"] else []) ++
                  (if dn == "-" && endsWithPoll && cs.length < accepted.length then ["event-not-delivered"] else []) ++
                  (if dn == "ok" && !complete then ["terminator-missing"] else []) ++
                  (if dn == "ok" && !allGone && cs.length ≥ 0 && !(ops.any fun o => match o with | .clone _ => false | _ => false) then
                     (if cs.length < accepted.length || !allGone then ["stream-ended-while-sender-connected"] else []) else []) ++
                  (if dn == "-" && endsWithPoll && allGone then ["stream-not-ended-after-all-senders-gone"] else []) ++
                  (if cs.isEmpty then [] else
                    (if Sse.parse cs.flatten == (accepted.take cs.length).map (fun e => ⟨evType e, evData e⟩) then [] else ["no-blank-line"]))
                if fails.isEmpty then "ok" else "FAIL:" ++ ",".intercalate fails.eraseDups ++ ":"
          | _ => "FAIL:unparsable-observation:"
        | _ => "FAIL:unparsable-observation:"
      model ++ "\t" ++ verdict
  | _ => "bad-case\tFAIL:bad-case"

/-- c11c `<type hex> <data hex>`: the checked constructor. -/
def handleCtor (args : List String) (obs : String) : String :=
  match args.mapM hexDecode with
  | some [t, d] =>
    let model := match custom? t d with
      | none => "err"
      | some ev => "ok:" ++ encBytes (encodeFixed ev)
    let verdict :=
      if obs == "PANIC" then "FAIL:panic:" else
      if obs.startsWith "ok" ∧ (t.contains 13 || t.contains 10) then "FAIL:type-with-line-break-accepted:"
      else if obs == "err" ∧ !(t.contains 13 || t.contains 10) then "FAIL:clean-type-refused:"
      else "ok"
    model ++ "\t" ++ verdict
  | _ => "bad-case\tFAIL:bad-case"

/-- c11t `<threads> <n>`: per sender thread, the accepted events appear exactly once and in order. -/
def handleStress (args : List String) (obs : String) : String :=
  match args with
  | [t, _n] =>
    let verdict :=
      match obs.splitOn " wire=" with
      | [accS, rest] =>
        match rest.splitOn " done=" with
        | [w, dn] =>
          match decBytes w, ((accS.drop 4).toString.splitOn ",").mapM String.toNat? with
          | some wire, some acc =>
            match chunks (wire.length + 2) wire [] with
            | some (cs, complete) =>
              let texts := cs.map fun c => String.fromUTF8! (ByteArray.mk c.toArray)
              let perThread := (List.range (t.toNat?.getD 0)).map fun ti =>
                texts.filterMap fun s =>
                  let pre := s!"data: t{ti}-"
                  if s.startsWith pre then ((s.drop pre.length).toString.trimAscii.toString.toNat?) else none
              let fails :=
                (if dn == "ok" && complete then [] else ["stream-not-terminated"]) ++
                (if (perThread.zip acc).all (fun (seen, a) => seen == List.range a) then [] else ["lost-duplicated-or-reordered"])
              if fails.isEmpty then "ok" else "FAIL:" ++ ",".intercalate fails ++ ":"
            | none => "FAIL:not-chunked:"
          | _, _ => "FAIL:unparsable-observation:"
        | _ => "FAIL:unparsable-observation:"
      | _ => if obs == "PANIC" then "FAIL:panic:" else "FAIL:unparsable-observation:"
    -- no model prediction for thread interleavings: the model column echoes the observation
    obs ++ "\t" ++ verdict
  | _ => "bad-case\tFAIL:bad-case"

end Drv.C11
end Servlin
