import ServlinVerif.Driver.Util
import ServlinVerif.Spec.Multimap
/- Driver for suite c14: `c14 <init> <ops>`; prints model outcome and the spec's outcome. -/
namespace Servlin
namespace Drv.C14
open Headers

def parseHeader (s : String) : Option Header :=
  match s.splitOn ":" with
  | [n, v] => do pure ⟨← hexDecode n, ← hexDecode v⟩
  | _ => none

def parseOp (s : String) : Option Op :=
  match s.splitOn ":" with
  | ["add", n, v] => do pure (.add (← hexDecode n) (← hexDecode v))
  | ["go", n] => do pure (.getOnly (← hexDecode n))
  | ["ga", n] => do pure (.getAll (← hexDecode n))
  | ["ro", n] => do pure (.removeOnly (← hexDecode n))
  | ["ra", n] => do pure (.removeAll (← hexDecode n))
  | _ => none

def showOut : Out → String
  | .unit => "-"
  | .opt v => optHex v
  | .list vs => listHex vs

def showHeaders (l : HeaderList) : String :=
  ",".intercalate (l.map fun h => hexEncode h.name ++ ":" ++ hexEncode h.value)

def showRun (r : HeaderList × List Out) : String :=
  ";".intercalate (r.2.map showOut) ++ " | " ++ showHeaders r.1

/-- returns (model outcome, spec outcome) -/
def handle (args : List String) : Option (String × String) :=
  match args with
  | [init, ops] => do
    let l ← (splitNonEmpty init ",").mapM parseHeader
    let os ← (splitNonEmpty ops ";").mapM parseOp
    pure (showRun (Headers.run l os), showRun (Multimap.run l os))
  | _ => none

/-- `c14a <ctor> <hex utf8>`: every constructor has the same contract. -/
def handleAscii (args : List String) : Option (String × String) :=
  match args with
  | [_ctor, inp] => do
    let bs ← hexDecode inp
    let r := match asciiTryFrom bs with
      | some v => "ok:" ++ hexEncode v
      | none => "err"
    -- spec: accepted unchanged iff every byte < 0x80
    let spec := if bs.all (· < 128) then "ok:" ++ hexEncode bs else "err"
    pure (r, spec)
  | _ => none

/-- `c14n <type> <value>`: numeric conversions give the decimal rendering (pure ASCII). -/
def handleNum (args : List String) : Option (String × String) :=
  match args with
  | [_ty, v] => do
    let i ← v.toInt?
    let r := "ok:" ++ hexEncode (str (toString i))
    pure (r, r)
  | _ => none

end Drv.C14
end Servlin
