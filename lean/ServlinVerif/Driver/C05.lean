import ServlinVerif.Driver.C06
import ServlinVerif.Model.Conn
import ServlinVerif.Spec.ConnContract
/- Driver for suite c05: `c05 <client script> <ops>`; per-op results with states, then the wire. -/
namespace Servlin
namespace Drv.C05
open ConnModel

/-- URL parser for the simple targets used at connection level: path = text before `?`. -/
def simpleUrl (t : Bytes) : Option Url :=
  let p := t.takeWhile (· ≠ 63)
  match t.dropWhile (· ≠ 63) with
  | [] => some ⟨p, none⟩
  | _ :: q => some ⟨p, some q⟩

def showRS : ReadState → String
  | .head => "H"
  | .body len e c g =>
    "B" ++ (match len with | some n => toString n | none => "-") ++ (if e then "e" else "") ++
      (if c then "c" else "") ++ (if g then "g" else "")
  | .shutdown => "S"

def showWS : WriteState → String
  | .none => "N" | .response => "R" | .shutdown => "S"

def showStates (c : Conn) : String := s!"{showRS c.rs},{showWS c.ws},{if isReady c then 1 else 0}"

def showReq (m : ReqMeta) : String :=
  let body := match m.body with | .pendingKnown n => s!"K{n}" | .pendingUnknown => "U" | .empty => "L0"
  s!"req:{hexEncode m.method}:{hexEncode m.url.path}:{body}"

def showBody : BodyVal → String
  | .vec b => "vec:" ++ encBytes b
  | .file _ b => s!"file:{b.length}:" ++ encBytes b

def errS (e : HttpError) : String := "err:" ++ e.name

/-- `wr:<code>:<variant>` -/
def makeResponse (code : Nat) (variant : String) : Response × Bool :=
  match variant with
  | "n" => (Response.text code (b!"body-of-response"), true)
  | "e" => (Response.new code, true)
  | "d" => (Response.dropConnection, false)
  | "g" => (Response.getBodyAndReprocess 10, false)
  | "c" => ({ code := code, ctype := some Response.plainText, body := Body.ofBytes (b!"x"),
              headers := [⟨b!"Content-Length", b!"1"⟩] }, false)
  | "t" => ({ code := code, ctype := some (b!"text/html; charset=UTF-8"), headers := [⟨b!"content-type", b!"a/b"⟩] }, false)
  | "k" => ({ code := code, headers := [⟨b!"Connection", b!"keep-alive"⟩] }, true)
  | "u" => ({ code := code, ctype := some Response.plainText, body := Body.ofBytes (b!"x"),
              headers := [⟨b!"connection", b!"Upgrade"⟩, ⟨b!"x-a", b!"1"⟩] }, true)
  | "s" => ({ code := code, ctype := some (b!"text/event-stream"),
              body := ⟨none, { pieces := [b!"data: tick\n"] }⟩ }, true)
  | v =>
    if v.startsWith "f" then
      -- f<declared>-<actual|m>
      match ((v.drop 1).toString).splitOn "-" with
      | [d, a] =>
        let declared := d.toNat?.getD 0
        let src : Source :=
          if a == "m" then { openFails := true }
          else
            let n := a.toNat?.getD 0
            let content : Bytes := (List.range n).map fun i => (97 + (i % 26)).toUInt8
            { pieces := if n == 0 then [] else [content] }
        ({ code := code, ctype := some (b!"application/octet-stream"), body := ⟨some declared, src⟩ }, true)
      | _ => (Response.new code, true)
    else (Response.new code, true)

structure StepOut where
  text : String
  step : ConnContract.Step

def runOp (c : Conn) (op : String) : Conn × String × Nat × Bool :=
  match op.splitOn ":" with
  | ["rr"] => let (c, r) := readRequest simpleUrl c; (c, (match r with | .ok m => "ok:" ++ showReq m | .error e => errS e), 0, true)
  | ["bv"] => let (c, r) := readBodyToVec c; (c, (match r with | .ok b => "ok:" ++ showBody b | .error e => errS e), 0, true)
  | ["bf", m] => let (c, r) := readBodyToFile c (m.toNat?.getD 0) {}; (c, (match r with | .ok b => "ok:" ++ showBody b | .error e => errS e), 0, true)
  | ["wc"] => let (c, r) := writeContinue c; (c, (match r with | .ok _ => "ok" | .error e => errS e), 0, true)
  | ["wr", code, v] =>
    let (resp, writable) := makeResponse (code.toNat?.getD 0) v
    let (c, r) := writeResponse c resp
    (c, (match r with | .ok _ => "ok" | .error e => errS e), code.toNat?.getD 0, writable)
  | ["sw"] => (shutdownWrite c, "ok", 0, true)
  | _ => (c, "bad-op", 0, true)

def runOps : Conn → List String → List String → Conn × List String
  | c, [], acc => (c, acc.reverse)
  | c, op :: rest, acc =>
    let (c', res, _, _) := runOp c op
    runOps c' rest (s!"{res}({showStates c'})" :: acc)

/-- Parses `res(rs,ws,ready)` -/
def parseObsStep (op : String) (s : String) : Option ConnContract.Step :=
  match s.splitOn "(" with
  | [res, st] =>
    match (st.dropEnd 1).toString.splitOn "," with
    | [rs, ws, _] =>
      let parts := op.splitOn ":"
      let code := (parts[1]?.bind String.toNat?).getD 0
      let writable := match parts with | ["wr", c, v] => (makeResponse (c.toNat?.getD 0) v).2 | _ => true
      let mayFail := match parts with | ["wr", _, v] => v.startsWith "f" | _ => false
      some ⟨parts.head!, if parts.head! == "wr" then code else 0, writable, mayFail, res, rs, ws⟩
    | _ => none
  | _ => none

def handle (args : List String) (obs : String) : String :=
  match args with
  | script :: ops :: rest =>
    match decBytes script with
    | none => "bad-case\tFAIL:bad-case"
    | some sc =>
      let opl := splitNonEmpty ops ";"
      -- third argument `rst`: the client's stream ends with a reset (socket error) instead of end-of-stream, and the
      -- client reads nothing (its transcript is empty)
      let rst := rest.head? == some "rst"
      let (c, outs) := runOps { input := sc, inputErr := rst } opl []
      let model := ";".intercalate outs ++ " wire=" ++ (if rst then "" else encBytes c.wire)
      let verdict :=
        if obs == "PANIC" then "FAIL:panic:" else
        match obs.splitOn " wire=" with
        | [stepsS, w] =>
          match decBytes w, ((stepsS.splitOn ";").zip opl).mapM (fun p => parseObsStep p.2 p.1) with
          | some wire, some steps =>
            if steps.length != opl.length then "FAIL:step-count:" else
            let faulty := opl.any fun o => (o.splitOn ":").length == 3 && ((o.splitOn ":")[2]!).startsWith "f"
            let fails :=
              if faulty then
                -- C08: what the peer received is a prefix of the same calls with intact body files
                let intact := opl.map fun o =>
                  match o.splitOn ":" with
                  | ["wr", cde, v] =>
                    if v.startsWith "f" then
                      match ((v.drop 1).toString).splitOn "-" with
                      | [d, _] => s!"wr:{cde}:f{d}-{d}"
                      | _ => o
                    else o
                  | _ => o
                let (ci, _) := runOps { input := sc } intact []
                ConnContract.checkSteps "H" "N" steps ++
                (if wire.isPrefixOf ci.wire then [] else ["not-a-prefix-of-the-correct-serialisation"])
              else if rst then ConnContract.checkSteps "H" "N" steps
              else ConnContract.check steps wire
            match fails with
            | [] => "ok"
            | fails => "FAIL:" ++ ",".intercalate fails.eraseDups ++ ":"
          | _, _ => "FAIL:unparsable-observation:"
        | _ => "FAIL:unparsable-observation:"
      model ++ "\t" ++ verdict
  | _ => "bad-case\tFAIL:bad-case"

end Drv.C05
end Servlin
