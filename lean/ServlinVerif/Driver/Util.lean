import ServlinVerif.Basic.Bytes
/- Line-protocol helpers for the driver (hex coding, field splitting). Not part of any model. -/
namespace Servlin
namespace Drv

def hexNib (n : UInt8) : Char :=
  if n < 10 then Char.ofNat (48 + n.toNat) else Char.ofNat (87 + n.toNat)

def hexEncode (bs : Bytes) : String :=
  String.ofList (bs.foldr (fun b acc => hexNib (b >>> (4 : UInt8)) :: hexNib (b &&& (15 : UInt8)) :: acc) [])

def nibVal (c : Char) : Option UInt8 :=
  let n := c.toNat
  if 48 ≤ n ∧ n ≤ 57 then some (UInt8.ofNat (n - 48))
  else if 97 ≤ n ∧ n ≤ 102 then some (UInt8.ofNat (n - 87))
  else none

/-- Tail-recursive hex decoder (large bodies must not use the stack). -/
def hexDecodeAux : List Char → Array UInt8 → Option (Array UInt8)
  | [], acc => some acc
  | [_], _ => none
  | a :: b :: rest, acc =>
    match nibVal a, nibVal b with
    | some x, some y => hexDecodeAux rest (acc.push (x * 16 + y))
    | _, _ => none

def hexDecode (s : String) : Option Bytes :=
  (hexDecodeAux s.toList #[]).map Array.toList

def hexDecode! (s : String) : Bytes := (hexDecode s).getD []

def fields (line : String) : List String := line.splitOn "\t"

def splitNonEmpty (s : String) (sep : String) : List String :=
  if s.isEmpty then [] else s.splitOn sep

def optHex : Option Bytes → String
  | none => "N"
  | some v => "S:" ++ hexEncode v

def listHex (vs : List Bytes) : String := "L:" ++ ",".intercalate (vs.map hexEncode)

end Drv
end Servlin
