import ServlinVerif.Basic.Bytes
/- Line-protocol helpers for the driver (hex coding, field splitting). Not part of any model. -/
namespace Servlin
namespace Drv

def hexNib (n : UInt8) : Char :=
  if n < 10 then Char.ofNat (48 + n.toNat) else Char.ofNat (87 + n.toNat)

def hexEncode (bs : Bytes) : String :=
  String.ofList (bs.foldr (fun b acc => hexNib (b >>> (4 : UInt8)) :: hexNib (b &&& (15 : UInt8)) :: acc) [])

def nibVal (c : Char) : Option UInt8 :=
  let n := c.toNat
  if 48 ≤ n ∧ n ≤ 57 then some (UInt8.ofNat (n - 48))
  else if 97 ≤ n ∧ n ≤ 102 then some (UInt8.ofNat (n - 87))
  else none

/-- Tail-recursive hex decoder (large bodies must not use the stack). -/
def hexDecodeAux : List Char → Array UInt8 → Option (Array UInt8)
  | [], acc => some acc
  | [_], _ => none
  | a :: b :: rest, acc =>
    match nibVal a, nibVal b with
    | some x, some y => hexDecodeAux rest (acc.push (x * 16 + y))
    | _, _ => none

def hexDecode (s : String) : Option Bytes :=
  (hexDecodeAux s.toList #[]).map Array.toList

def hexDecode! (s : String) : Bytes := (hexDecode s).getD []

def fields (line : String) : List String := line.splitOn "\t"

def splitNonEmpty (s : String) (sep : String) : List String :=
  if s.isEmpty then [] else s.splitOn sep

def optHex : Option Bytes → String
  | none => "N"
  | some v => "S:" ++ hexEncode v

def listHex (vs : List Bytes) : String := "L:" ++ ",".intercalate (vs.map hexEncode)

/-- Compact byte-string syntax (same greedy algorithm as `gen::enc` in the harness): segments joined
    by `+`, each plain hex or `hh*count` for a run of at least 16 equal bytes. -/
def encBytes (bs : Bytes) : String := Id.run do
  let a := bs.toArray
  let n := a.size
  let mut segs : Array String := #[]
  let mut pend : String := ""
  let mut i := 0
  while i < n do
    let b := a[i]!
    let mut j := i
    while j < n && a[j]! == b do
      j := j + 1
    if j - i ≥ 16 then
      if !pend.isEmpty then
        segs := segs.push pend
        pend := ""
      segs := segs.push (hexEncode [b] ++ "*" ++ toString (j - i))
      i := j
    else
      pend := pend.push (hexNib (b >>> (4 : UInt8))) |>.push (hexNib (b &&& (15 : UInt8)))
      i := i + 1
  if !pend.isEmpty then
    segs := segs.push pend
  return "+".intercalate segs.toList

def decBytes (s : String) : Option Bytes := do
  let mut out : Array UInt8 := #[]
  for seg in splitNonEmpty s "+" do
    match seg.splitOn "*" with
    | [h, n] =>
      let b ← hexDecode h
      let k ← n.toNat?
      match b with
      | [x] => out := out ++ Array.replicate k x
      | _ => none
    | [h] =>
      let b ← hexDecodeAux h.toList #[]
      out := out ++ b
    | _ => none
  return out.toList

def parseSizes (s : String) : Option (List Nat) := (splitNonEmpty s ",").mapM String.toNat?

end Drv
end Servlin
