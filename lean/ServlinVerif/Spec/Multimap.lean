import ServlinVerif.Model.Headers
/-
  Specification for C14: an ordered multimap with ASCII-case-insensitive names.
  Deliberately written with `filter`/`map` only, independent of the loops in the model.
-/
namespace Servlin
namespace Multimap

def isMatch (name : Bytes) (h : Header) : Bool := eqIgnoreCase h.name name

/-- Values of all and only the matching fields, in order. -/
def getAll (l : HeaderList) (name : Bytes) : List Bytes :=
  (l.filter (isMatch name)).map Header.value

/-- Answers only when exactly one field matches. -/
def getOnly (l : HeaderList) (name : Bytes) : Option Bytes :=
  match getAll l name with
  | [v] => some v
  | _ => none

/-- Removal deletes all and only the matching fields, returns their values in order and leaves
    the others in their original relative order. -/
def removeAll (l : HeaderList) (name : Bytes) : List Bytes × HeaderList :=
  (getAll l name, l.filter (fun h => !isMatch name h))

def removeOnly (l : HeaderList) (name : Bytes) : Option Bytes × HeaderList :=
  (getOnly l name, l.filter (fun h => !isMatch name h))

def add (l : HeaderList) (name value : Bytes) : HeaderList := l ++ [⟨name, value⟩]

open Headers in
def step (l : HeaderList) : Op → HeaderList × Out
  | .add n v => (add l n v, .unit)
  | .getOnly n => (l, .opt (getOnly l n))
  | .getAll n => (l, .list (getAll l n))
  | .removeOnly n => ((removeOnly l n).2, .opt (removeOnly l n).1)
  | .removeAll n => ((removeAll l n).2, .list (removeAll l n).1)

open Headers in
def run (l : HeaderList) : List Op → HeaderList × List Out
  | [] => (l, [])
  | op :: ops =>
    let (l', o) := step l op
    let (l'', os) := run l' ops
    (l'', o :: os)

end Multimap
end Servlin
