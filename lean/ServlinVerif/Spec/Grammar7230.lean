import ServlinVerif.Basic.Bytes
/-
  Specification for C02: the HTTP/1.1 request-head grammar the library documents (RFC 7230 §3),
  as (a) a generator of well-formed heads (`WfHead`, `render`) and (b) an independent reference
  classifier of arbitrary head bytes into must-accept / must-reject / implementation-free.
  Nothing here refers to the parser model.
-/
namespace Servlin
namespace Grammar

/-- tchar = "!" / "#" / "$" / "%" / "&" / "'" / "*" / "+" / "-" / "." / "^" / "_" / "`" / "|" / "~"
    / DIGIT / ALPHA -/
def tchar (b : UInt8) : Bool :=
  (b!"!#$%&'*+-.^_`|~").contains b || (48 ≤ b && b ≤ 57) || (65 ≤ b && b ≤ 90) || (97 ≤ b && b ≤ 122)

def vchar (b : UInt8) : Bool := 33 ≤ b && b ≤ 126
def ows (b : UInt8) : Bool := b == 32 || b == 9
/-- field-content bytes: VCHAR / SP / HTAB -/
def fieldByte (b : UInt8) : Bool := vchar b || ows b

def isToken (s : Bytes) : Bool := s ≠ [] && s.all tchar

structure Field where
  name : Bytes
  pre : Bytes      -- OWS before the value
  value : Bytes
  post : Bytes     -- OWS after the value
deriving Repr, DecidableEq

structure RawHead where
  method : Bytes
  target : Bytes
  fields : List Field
deriving Repr, DecidableEq

def Field.wf (f : Field) : Bool :=
  isToken f.name && f.pre.all ows && f.post.all ows && f.value.all fieldByte &&
  (match f.value.head? with | some b => !ows b | none => true) &&
  (match f.value.getLast? with | some b => !ows b | none => true)

/-- Well-formed head: token method, origin-form target (VCHARs, starting with "/"), version
    HTTP/1.1, name-colon-value field lines. -/
def RawHead.wf (h : RawHead) : Bool :=
  isToken h.method && h.target.head? == some 47 && h.target.all vchar && h.fields.all Field.wf

def crlf : Bytes := [13, 10]

def Field.render (f : Field) : Bytes := f.name ++ [58] ++ f.pre ++ f.value ++ f.post

def RawHead.requestLine (h : RawHead) : Bytes := h.method ++ [32] ++ h.target ++ [32] ++ b!"HTTP/1.1"

/-- request-line CRLF *( header-field CRLF ) CRLF -/
def RawHead.render (h : RawHead) : Bytes :=
  h.requestLine ++ crlf ++ (h.fields.map fun f => f.render ++ crlf).flatten ++ crlf

/-! ### Reference classifier -/

/-- Strict split at CRLF pairs. -/
def splitCrlf : Bytes → List Bytes
  | [] => [[]]
  | [b] => [[b]]
  | b :: c :: rest =>
    if b = 13 ∧ c = 10 then [] :: splitCrlf rest
    else match splitCrlf (c :: rest) with
      | [] => [[b]]
      | l :: ls => (b :: l) :: ls

/-- Split at the first occurrence of `sep`. -/
def cutAt (sep : UInt8) : Bytes → Option (Bytes × Bytes)
  | [] => none
  | b :: t => if b = sep then some ([], t) else (cutAt sep t).map fun p => (b :: p.1, p.2)

/-- Three SP-separated non-empty parts; the first a token, the others free of SP and HT. -/
def requestLineParts (l : Bytes) : Option (Bytes × Bytes × Bytes) := do
  let (m, r) ← cutAt 32 l
  let (t, p) ← cutAt 32 r
  if isToken m && t ≠ [] && p ≠ [] && !t.contains 9 && !p.contains 9 && !p.contains 32 then some (m, t, p) else none

/-- Token name immediately followed by ":"; value = the rest with OWS stripped. -/
def fieldLineParts (l : Bytes) : Option (Bytes × Bytes) := do
  let (n, v) ← cutAt 58 l
  if isToken n then
    let strip := fun (x : Bytes) => x.dropWhile ows
    some (n, (strip (strip v).reverse).reverse)
  else none

inductive Expect where
  | accept (method target : Bytes) (fields : List (Bytes × Bytes))
  | reject (error : String)
  | free
deriving Repr, DecidableEq

/-- Classification of the bytes before the first blank line.  `targetOk` says whether the target is
    valid UTF-8, starts with "/" and is accepted by the URL parser (supplied by the caller). -/
def classify (head : Bytes) (targetOk : Bytes → Bool) : Expect :=
  let lines := splitCrlf head
  -- only "clean" heads are classified: no stray CR or LF inside any line
  if lines.any (fun l => l.contains 13 || l.contains 10) then .free else
  match lines with
  | [] => .free
  | rl :: fls =>
    match requestLineParts rl with
    | none => .reject "MalformedRequestLine"
    | some (m, t, p) =>
      if !targetOk t then .reject "MalformedPath"
      else if p ≠ b!"HTTP/1.1" then .reject "UnsupportedProtocol"
      else
        let parsed := fls.map fieldLineParts
        if parsed.any Option.isNone then .reject "MalformedHeaderLine"
        else
          let fs := parsed.filterMap id
          if fs.all (fun f => f.2.all fieldByte) && t.all vchar then .accept m t fs else .free

/-- Class-A targets: `1*( "/" *pchar ) [ "?" *( pchar / "/" / "?" ) ]`, no dot-segments, no `'` in
    the query, no `%2e`: on these the handler must see path and query verbatim. -/
def pchar (b : UInt8) : Bool :=
  (65 ≤ b && b ≤ 90) || (97 ≤ b && b ≤ 122) || (48 ≤ b && b ≤ 57) || (b!"-._~!$&'()*+,;=:@%").contains b

def classA (t : Bytes) : Option (Bytes × Option Bytes) :=
  let path := t.takeWhile (· ≠ 63)
  let q := match t.dropWhile (· ≠ 63) with | [] => none | _ :: q => some q
  let segs := splitOn 47 path
  let lowerSegs := segs.map (·.map toLower)
  let dotty := fun (s : Bytes) => s == b!"." || s == b!".." || s == b!"%2e" || s == b!"%2e%2e" || s == b!".%2e" || s == b!"%2e."
  if path.head? == some 47 && path.all (fun b => pchar b || b == 47) && !lowerSegs.any dotty &&
     (match q with | none => true | some q => q.all (fun b => (pchar b && b != 39) || b == 47 || b == 63))
  then some (path, q) else none

end Grammar
end Servlin
