import ServlinVerif.Basic.Bytes
/-
  Specification for C01 (executable statement): what reading a request from the byte sequence
  `all` (buffer ++ stream) with a head buffer of `cap` bytes must do, stated without any parser:
  only the position of the first blank line matters.
-/
namespace Servlin
namespace ReadSpec

/-- Index of the first `CR LF CR LF`, by direct comparison at each position. -/
def firstBlankLine : Bytes → Option Nat
  | [] => none
  | b :: rest =>
    if b = 13 ∧ rest.take 3 = [10, 13, 10] then some 0 else (firstBlankLine rest).map (· + 1)

/-- The documented error outcomes of reading a request. -/
def documentedErrors : List String :=
  ["MalformedRequestLine", "MalformedPath", "MalformedHeaderLine", "UnsupportedProtocol",
   "HeadTooLong", "Truncated", "Disconnected", "InvalidContentLength",
   "UnsupportedTransferEncoding", "MalformedCookieHeader"]

/-- `outcome` is `"ok"`, `"PANIC"` or the error name; `left` the bytes still available afterwards.
    Returns the list of violated clauses. -/
def check (cap : Nat) (all : Bytes) (outcome : String) (left : Bytes) : List String :=
  if outcome == "PANIC" then ["panic"] else
  (if outcome == "ok" || documentedErrors.contains outcome then [] else ["undocumented-outcome"]) ++
  match firstBlankLine (all.take cap) with
  | some i =>
    -- a head is present: it is consumed, and nothing after its blank line is
    (if left == all.drop (i + 4) then [] else ["consumed-wrong-amount"]) ++
    (if outcome == "HeadTooLong" || outcome == "Truncated" || outcome == "Disconnected" then ["head-not-seen"] else [])
  | none =>
    let expected := if cap ≤ all.length then "HeadTooLong" else if all.isEmpty then "Disconnected" else "Truncated"
    if outcome == expected then [] else ["wrong-end-classification"]

end ReadSpec
end Servlin
