import ServlinVerif.Basic.Bytes
/-
  Specification for C11: the WHATWG "event stream interpretation" algorithm (HTML §9.2.6), for the
  fields `event` and `data` (`id` and `retry` are parsed and ignored). Input: the decoded body bytes
  (UTF-8; only LF, CR, ':' and SP matter to the algorithm).
-/
namespace Servlin
namespace Sse

/-- Lines of the stream: ended by CRLF, LF or CR; an unterminated last line is *not* a line. -/
def lines : Bytes → Bytes → List Bytes
  | [], _ => []
  | 13 :: 10 :: rest, cur => cur.reverse :: lines rest []
  | 13 :: rest, cur => cur.reverse :: lines rest []
  | 10 :: rest, cur => cur.reverse :: lines rest []
  | b :: rest, cur => lines rest (b :: cur)

structure Ev where
  type : Bytes
  data : Bytes
deriving Repr, DecidableEq

structure St where
  typeBuf : Bytes := []
  dataBuf : Bytes := []
  out : List Ev := []
deriving Repr

def processLine (s : St) (l : Bytes) : St :=
  if l = [] then
    -- dispatch
    if s.dataBuf = [] then { s with typeBuf := [], dataBuf := [] }
    else
      let d := if s.dataBuf.getLast? = some 10 then s.dataBuf.dropLast else s.dataBuf
      { typeBuf := [], dataBuf := [], out := s.out ++ [⟨if s.typeBuf = [] then b!"message" else s.typeBuf, d⟩] }
  else if l.head? = some 58 then s
  else
    let field := l.takeWhile (· ≠ 58)
    let value0 := (l.dropWhile (· ≠ 58)).drop 1
    let value := if value0.head? = some 32 then value0.drop 1 else value0
    if field = b!"event" then { s with typeBuf := value }
    else if field = b!"data" then { s with dataBuf := s.dataBuf ++ value ++ [10] }
    else s

/-- The events a conformant EventSource dispatches for this stream. -/
def parse (stream : Bytes) : List Ev := ((lines stream []).foldl processLine {}).out

end Sse
end Servlin
