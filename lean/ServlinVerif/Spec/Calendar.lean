import ServlinVerif.Model.Time
/-
  Specification for C16: the proleptic Gregorian calendar as a bijection between valid civil
  date-times (from 1970 on) and seconds since the epoch.  Closed forms only; no loops.
-/
namespace Servlin
namespace Calendar
open Time

/-- Number of leap years in 1..y. -/
def leapsThrough (y : Nat) : Nat := y / 4 - y / 100 + y / 400

/-- Days from 1970-01-01 to `y`-01-01 (for `y ≥ 1970`). -/
def daysBeforeYear (y : Nat) : Nat := 365 * (y - 1970) + (leapsThrough (y - 1) - 477)

/-- Days from `y`-01-01 to the first day of month `m` (1..12). -/
def daysBeforeMonth (y m : Nat) : Nat :=
  (match m with
   | 1 => 0 | 2 => 31 | 3 => 59 | 4 => 90 | 5 => 120 | 6 => 151 | 7 => 181 | 8 => 212
   | 9 => 243 | 10 => 273 | 11 => 304 | 12 => 334 | _ => 0) +
  (if m > 2 ∧ isLeap y then 1 else 0)

def monthLen (y m : Nat) : Nat :=
  match m with
  | 2 => if isLeap y then 29 else 28
  | 4 | 6 | 9 | 11 => 30
  | _ => 31

/-- A civil date-time of the proleptic Gregorian calendar (year ≥ 1970). -/
def Valid (dt : DT) : Prop :=
  1970 ≤ dt.year ∧ 1 ≤ dt.month ∧ dt.month ≤ 12 ∧ 1 ≤ dt.day ∧ dt.day ≤ monthLen dt.year dt.month ∧
  dt.hour < 24 ∧ dt.min < 60 ∧ dt.sec < 60

instance (dt : DT) : Decidable (Valid dt) := by unfold Valid; infer_instance

/-- Seconds since 1970-01-01T00:00:00Z of a civil date-time. -/
def toSecs (dt : DT) : Nat :=
  (daysBeforeYear dt.year + daysBeforeMonth dt.year dt.month + (dt.day - 1)) * 86400 +
  dt.hour * 3600 + dt.min * 60 + dt.sec

end Calendar
end Servlin
