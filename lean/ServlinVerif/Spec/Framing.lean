import ServlinVerif.Basic.Bytes
/-
  Specification for C03: how a request's body is delimited, as a function of its method and its
  field list — written from the property statement (RFC 7230 §3.3.3 restricted to what servlin
  supports), independent of the parser model.
-/
namespace Servlin
namespace Framing

structure Field where
  name : Bytes
  value : Bytes
deriving Repr, DecidableEq

def valuesOf (fields : List Field) (name : String) : List Bytes :=
  (fields.filter fun f => f.name.map toLower == (str name).map toLower).map (·.value)

inductive Body where
  | none               -- no body: the next byte starts the next request
  | sized (n : Nat)    -- exactly the next n bytes (n > 0)
  | untilClose         -- runs to end of stream / unknown length
deriving Repr, DecidableEq

/-- What must happen. -/
inductive Verdict where
  | reject                                             -- invalid or ambiguous framing: a 400
  | accept (gzip chunked : Bool) (len : Option Nat) (body : Body)
deriving Repr, DecidableEq

def isDigits (v : Bytes) : Bool := v ≠ [] && v.all (fun b => 48 ≤ b && b ≤ 57)

def decVal (v : Bytes) : Nat := v.foldl (fun a d => a * 10 + (d.toNat - 48)) 0

/-- OWS-trimmed, non-empty elements of a comma-separated list. -/
def listElems (v : Bytes) : List Bytes := ((splitOn 44 v).map trimWs).filter (· ≠ [])

def verdict (method : Bytes) (fields : List Field) : Verdict :=
  let tes := valuesOf fields "transfer-encoding"
  let cls := valuesOf fields "content-length"
  let expect := valuesOf fields "expect" == [b!"100-continue"]
  let codings : Option (Bool × Bool) :=
    match tes with
    | [] => some (false, false)
    | [v] =>
      let es := listElems v
      if es == [] then some (false, false)
      else if es == [b!"chunked"] then some (false, true)
      else if es == [b!"gzip"] then some (true, false)
      else if es == [b!"gzip", b!"chunked"] then some (true, true)
      else none
    | _ => none
  let len : Option (Option Nat) :=
    match cls with
    | [] => some none
    | [v] => if isDigits v && decVal v < 2 ^ 64 then some (some (decVal v)) else none
    | _ => none
  match codings, len with
  | some (gz, ch), some l =>
    let body :=
      if ch then Body.untilClose
      else match l with
        | some 0 => Body.none
        | some n => Body.sized n
        | none =>
          if method == b!"POST" || method == b!"PUT" then Body.untilClose
          else if expect || gz then Body.untilClose   -- servlin's documented extension
          else Body.none
    .accept gz ch l body
  | _, _ => .reject

/-- Field list of a well-formed head (CRLF line ends, `name ":" OWS value OWS`). -/
def fieldsOfHead (head : Bytes) : Bytes × List Field :=
  let lines := (splitOn 10 head).map (fun l => if l.getLast? = some 13 then l.dropLast else l)
  let lines := lines.filter (· ≠ [])
  match lines with
  | [] => ([], [])
  | rl :: fs =>
    (rl.takeWhile (· ≠ 32),
     fs.map fun l =>
       let name := l.takeWhile (· ≠ 58)
       let v := (l.dropWhile (· ≠ 58)).drop 1
       let trimB := fun (x : Bytes) => x.dropWhile (fun b => b == 32 || b == 9)
       ⟨name, (trimB (trimB v).reverse).reverse⟩)

end Framing
end Servlin
