import ServlinVerif.Spec.RespParser
/-
  Specification for C05 (executable statement over an observed trace): the documented protocol-state
  contract of the connection object, phrased over what a caller can see — the sequence of calls, each
  call's result and the (read state, write state) after it, and the bytes the peer received.
  Independent of the connection model.
-/
namespace Servlin
namespace ConnContract

structure Step where
  op : String          -- rr | bv | bf | wc | wr | sw
  code : Nat           -- status code for wr (0 otherwise)
  writable : Bool      -- wr: the response is a normal one without conflicting fields
  mayFail : Bool := false  -- wr: the body source is faulty (C08): the write may fail after sending bytes
  result : String      -- "ok…" or "err:Name"
  rs : String          -- H | B… | S
  ws : String          -- N | R | S
deriving Repr

def misuseErrors : List String :=
  ["err:ResponseNotSent", "err:BodyNotRead", "err:ResponseAlreadySent", "err:BodyNotAvailable"]

def isOk (s : Step) : Bool := s.result.startsWith "ok"

/-- Checks one step given the states before it. Returns the violated clauses. -/
def checkStep (rs0 ws0 : String) (s : Step) : List String :=
  let unchanged := s.rs == rs0 && s.ws == ws0
  -- a documented misuse error never changes the protocol state
  (if misuseErrors.contains s.result && !unchanged then ["misuse-changed-state"] else []) ++
  (match s.op with
   | "rr" =>
     (if ws0 == "R" && s.result != "err:ResponseNotSent" then ["read-while-response-owed"] else []) ++
     (if ws0 == "S" && s.result != "err:Disconnected" then ["read-after-shutdown"] else []) ++
     (if ws0 == "N" && rs0.startsWith "B" && s.result != "err:BodyNotRead" then ["read-while-body-unread"] else []) ++
     (if isOk s && s.ws != "R" then ["no-response-owed-after-request"] else [])
   | "wr" =>
     (if ws0 == "N" && s.result != "err:ResponseAlreadySent" then ["second-final-response"] else []) ++
     (if ws0 == "S" && s.result != "err:Disconnected" then ["write-after-shutdown"] else []) ++
     (if ws0 == "R" && s.writable && !s.mayFail && !isOk s then ["owed-response-refused"] else []) ++
     (if ws0 == "R" && !s.writable && (isOk s || s.ws != "R") then ["unwritable-response-changed-state"] else []) ++
     (if ws0 == "R" && s.mayFail && !isOk s && !(s.ws == "S" || s.ws == "R") then ["failed-write-left-connection-open"] else []) ++
     (if isOk s && s.code / 100 == 1 && s.ws != "R" then ["interim-discharged-debt"] else []) ++
     (if isOk s && s.code / 100 == 5 && s.ws != "S" then ["5xx-did-not-close"] else []) ++
     (if isOk s && s.code / 100 != 1 && s.code / 100 != 5 && s.ws != "N" then ["final-did-not-discharge"] else [])
   | "wc" =>
     (if ws0 == "N" && s.result != "err:ResponseAlreadySent" then ["continue-without-debt"] else []) ++
     (if ws0 == "S" && s.result != "err:Disconnected" then ["write-after-shutdown"] else []) ++
     (if ws0 == "R" && !(isOk s && s.ws == "R") then ["continue-refused-or-discharged"] else [])
   | "sw" => if s.ws == "S" then [] else ["shutdown-ignored"]
   | "bv" | "bf" =>
     (if rs0 == "H" && s.result != "err:BodyNotAvailable" then ["body-read-without-body"] else []) ++
     (if rs0 == "S" && s.result != "err:Disconnected" then ["body-read-after-shutdown"] else []) ++
     (if rs0.startsWith "B" && (rs0.contains 'c' || rs0.contains 'g') && s.result != "err:UnsupportedTransferEncoding" then ["coding-not-refused"] else []) ++
     (if isOk s && s.rs.startsWith "B" then ["body-still-pending-after-read"] else [])
   | _ => ["unknown-op"])

def checkSteps : String → String → List Step → List String
  | _, _, [] => []
  | rs0, ws0, s :: rest => checkStep rs0 ws0 s ++ checkSteps s.rs s.ws rest

/-- Splits the received bytes into complete responses (strict parser); `none` if some part is not one. -/
def responses : Nat → Bytes → List RespParser.Parsed → Option (List RespParser.Parsed)
  | 0, _, _ => none
  | fuel + 1, wire, acc =>
    if wire.isEmpty then some acc.reverse else
    match RespParser.parse wire with
    | .ok p => if p.rest.length < wire.length then responses fuel p.rest (p :: acc) else none
    | _ => none

/-- Whole-trace check: step contract + what the peer received. `autoContinues` = number of body
    reads that succeeded on a request announced with `Expect` (each sends one interim response). -/
def check (steps : List Step) (wire : Bytes) : List String :=
  checkSteps "H" "N" steps ++
  (match responses (wire.length + 1) wire [] with
   | none => ["wire-not-a-sequence-of-responses"]
   | some rs =>
     let finalsSent := (steps.filter fun s => s.op == "wr" && isOk s && s.code / 100 != 1).length
     let finalsSeen := (rs.filter fun p => p.code / 100 != 1).length
     -- a read attempt that got past the guards creates the debt of one response (also when the
     -- request turned out malformed: the error response is that one response)
     let requests := (steps.filter fun s => s.op == "rr" && !misuseErrors.contains s.result && s.ws == "R").length
     (if finalsSeen == finalsSent then [] else ["finals-on-wire-differ-from-successful-writes"]) ++
     (if finalsSeen ≤ requests then [] else ["more-final-responses-than-requests"]) ++
     -- nothing after a 5xx, and every 5xx is marked connection: close
     (match rs.span (fun p => p.code / 100 != 5) with
      | (_, f :: after) =>
        (if after.isEmpty then [] else ["bytes-after-5xx"]) ++
        (if f.fields.contains (b!"connection", b!"close") then [] else ["5xx-without-connection-close"])
      | _ => []))

end ConnContract
end Servlin
