/-
  Specification for C17: an RFC 8259 parser for one *flat* JSON object (members whose values are
  strings, numbers, `true`, `false` or `null`), strict: anything else is rejected.  Text is a list
  of Unicode scalar values (the log line decoded from UTF-8).
-/
namespace Servlin
namespace Json

inductive Val where
  | str (s : List Char)
  | num (text : List Char)      -- the exact token; numeric value via `intVal?` when it is an integer
  | bool (b : Bool)
  | null
deriving Repr, DecidableEq

def isWs (c : Char) : Bool := c == ' ' || c == '\t' || c == '\n' || c == '\r'

def skipWs : List Char → List Char
  | [] => []
  | c :: t => if isWs c then skipWs t else c :: t

def hexVal (c : Char) : Option Nat :=
  if '0' ≤ c ∧ c ≤ '9' then some (c.toNat - 48)
  else if 'a' ≤ c ∧ c ≤ 'f' then some (c.toNat - 87)
  else if 'A' ≤ c ∧ c ≤ 'F' then some (c.toNat - 55)
  else none

def hex4 (a b c d : Char) : Option Nat := do
  pure ((← hexVal a) * 4096 + (← hexVal b) * 256 + (← hexVal c) * 16 + (← hexVal d))

/-- Parses the rest of a string after the opening quote; returns the decoded scalar values and
    the text after the closing quote.  Raw control characters, unknown escapes and unpaired
    surrogates are rejected. -/
def parseStr : Nat → List Char → List Char → Option (List Char × List Char)
  | 0, _, _ => none
  | fuel + 1, inp, acc =>
    match inp with
    | [] => none
    | '"' :: rest => some (acc.reverse, rest)
    | '\\' :: e :: rest =>
      match e with
      | '"' => parseStr fuel rest ('"' :: acc)
      | '\\' => parseStr fuel rest ('\\' :: acc)
      | '/' => parseStr fuel rest ('/' :: acc)
      | 'b' => parseStr fuel rest ('\x08' :: acc)
      | 'f' => parseStr fuel rest ('\x0c' :: acc)
      | 'n' => parseStr fuel rest ('\n' :: acc)
      | 'r' => parseStr fuel rest ('\r' :: acc)
      | 't' => parseStr fuel rest ('\t' :: acc)
      | 'u' =>
        match rest with
        | a :: b :: c :: d :: rest' =>
          match hex4 a b c d with
          | none => none
          | some n =>
            if 0xD800 ≤ n ∧ n ≤ 0xDBFF then
              match rest' with
              | '\\' :: 'u' :: a2 :: b2 :: c2 :: d2 :: rest'' =>
                match hex4 a2 b2 c2 d2 with
                | some m =>
                  if 0xDC00 ≤ m ∧ m ≤ 0xDFFF then
                    parseStr fuel rest'' (Char.ofNat (0x10000 + (n - 0xD800) * 1024 + (m - 0xDC00)) :: acc)
                  else none
                | none => none
              | _ => none
            else if 0xDC00 ≤ n ∧ n ≤ 0xDFFF then none
            else parseStr fuel rest' (Char.ofNat n :: acc)
        | _ => none
      | _ => none
    | c :: rest => if c.toNat < 0x20 then none else parseStr fuel rest (c :: acc)

def isDigit (c : Char) : Bool := '0' ≤ c && c ≤ '9'

def takeDigits : List Char → List Char × List Char
  | [] => ([], [])
  | c :: t => if isDigit c then let (d, r) := takeDigits t; (c :: d, r) else ([], c :: t)

/-- optional minus sign -/
def takeSign : List Char → List Char × List Char
  | '-' :: t => (['-'], t)
  | inp => ([], inp)

/-- optional fraction: "." digits -/
def takeFrac : List Char → List Char × List Char
  | '.' :: t => ('.' :: (takeDigits t).1, (takeDigits t).2)
  | r1 => ([], r1)

def takeExpSign : List Char → List Char × List Char
  | '+' :: u => (['+'], u)
  | '-' :: u => (['-'], u)
  | t => ([], t)

/-- optional exponent: e/E, optional sign, digits -/
def takeExp : List Char → List Char × List Char
  | e :: t =>
    if e = 'e' ∨ e = 'E' then
      (e :: (takeExpSign t).1 ++ (takeDigits (takeExpSign t).2).1, (takeDigits (takeExpSign t).2).2)
    else ([], e :: t)
  | [] => ([], [])

/-- number = [ minus ] int [ frac ] [ exp ] -/
def parseNum (inp : List Char) : Option (List Char × List Char) :=
  let sg := takeSign inp
  let dg := takeDigits sg.2
  if dg.1 = [] then none
  else if dg.1.length > 1 ∧ dg.1.head? = some '0' then none
  else
    let fr := takeFrac dg.2
    if fr.1 = ['.'] then none
    else
      let ex := takeExp fr.2
      if ex.1 ≠ [] ∧ ¬ (ex.1.getLast?.map isDigit = some true) then none
      else some (sg.1 ++ dg.1 ++ fr.1 ++ ex.1, ex.2)

def parseVal (inp : List Char) : Option (Val × List Char) :=
  match inp with
  | '"' :: rest => (parseStr (rest.length + 1) rest []).map fun p => (.str p.1, p.2)
  | 't' :: 'r' :: 'u' :: 'e' :: rest => some (.bool true, rest)
  | 'f' :: 'a' :: 'l' :: 's' :: 'e' :: rest => some (.bool false, rest)
  | 'n' :: 'u' :: 'l' :: 'l' :: rest => some (.null, rest)
  | _ => (parseNum inp).map fun p => (.num p.1, p.2)

/-- members after the opening brace (at least one member is expected: log lines always have some). -/
def parseMembers : Nat → List Char → List (List Char × Val) → Option (List (List Char × Val) × List Char)
  | 0, _, _ => none
  | fuel + 1, inp, acc =>
    match skipWs inp with
    | '"' :: rest =>
      match parseStr (rest.length + 1) rest [] with
      | none => none
      | some (k, r1) =>
        match skipWs r1 with
        | ':' :: r2 =>
          match parseVal (skipWs r2) with
          | none => none
          | some (v, r3) =>
            match skipWs r3 with
            | ',' :: r4 => parseMembers fuel r4 ((k, v) :: acc)
            | '}' :: r4 => some (((k, v) :: acc).reverse, r4)
            | _ => none
        | _ => none
    | _ => none

/-- A complete flat object with nothing but optional whitespace around it. -/
def parseObject (inp : List Char) : Option (List (List Char × Val)) :=
  match skipWs inp with
  | '{' :: rest =>
    match skipWs rest with
    | '}' :: r => if skipWs r = [] then some [] else none
    | _ =>
      match parseMembers (rest.length + 1) rest [] with
      | some (ms, r) => if skipWs r = [] then some ms else none
      | none => none
  | _ => none

/-- Integer value of a number token without fraction/exponent. -/
def intVal? (t : List Char) : Option Int :=
  let (neg, ds) := match t with | '-' :: r => (true, r) | _ => (false, t)
  if ds ≠ [] ∧ ds.all isDigit then
    let n : Nat := ds.foldl (fun (a : Nat) d => a * 10 + (d.toNat - 48)) 0
    some (if neg then -(n : Int) else (n : Int))
  else none

/-- **One log line**: exactly one `\n`, at the very end, and before it one flat JSON object. -/
def parseLine (line : List Char) : Option (List (List Char × Val)) :=
  match line.reverse with
  | '\n' :: body => if body.contains '\n' then none else parseObject body.reverse
  | _ => none

end Json
end Servlin
