import ServlinVerif.Basic.Bytes
/-
  Independent decoder for the chunked transfer coding, RFC 7230 §4.1 (no chunk extensions, no
  trailer fields: the encoder under test must not need them):
     chunked-body = *chunk last-chunk CRLF
     chunk        = chunk-size CRLF chunk-data CRLF        chunk-size = 1*HEXDIG
     last-chunk   = 1*("0") CRLF
-/
namespace Servlin
namespace ChunkDecoder

inductive Dec where
  | complete (data rest : Bytes)
  | incomplete
  | invalid
deriving Repr, DecidableEq

def hexVal (b : UInt8) : Option Nat :=
  if 48 ≤ b ∧ b ≤ 57 then some (b.toNat - 48)
  else if 97 ≤ b ∧ b ≤ 102 then some (b.toNat - 87)
  else if 65 ≤ b ∧ b ≤ 70 then some (b.toNat - 55)
  else none

inductive SizeRes where
  | ok (n : Nat) (rest : Bytes)
  | incomplete
  | invalid
deriving Repr, DecidableEq

/-- `1*HEXDIG CRLF` -/
def parseSize : Bytes → Nat → Bool → SizeRes
  | [], _, _ => .incomplete
  | b :: bs, acc, seen =>
    match hexVal b with
    | some v => parseSize bs (acc * 16 + v) true
    | none =>
      if b = 13 ∧ seen then
        match bs with
        | [] => .incomplete
        | c :: rest => if c = 10 then .ok acc rest else .invalid
      else .invalid

/-- `acc` holds the chunk data seen so far, most recent first (so that long streams of small
    chunks decode in linear time). -/
def decodeAux : Nat → Bytes → List Bytes → Dec
  | 0, _, _ => .incomplete
  | fuel + 1, inp, acc =>
    match parseSize inp 0 false with
    | .incomplete => .incomplete
    | .invalid => .invalid
    | .ok 0 rest =>
      match rest with
      | [] => .incomplete
      | [c] => if c = 13 then .incomplete else .invalid
      | c :: d :: r => if c = 13 ∧ d = 10 then .complete acc.reverse.flatten r else .invalid
    | .ok (n + 1) rest =>
      if (rest.take (n + 1)).length < n + 1 then .incomplete
      else
        match rest.drop (n + 1) with
        | [] => .incomplete
        | [c] => if c = 13 then .incomplete else .invalid
        | c :: d :: r =>
          if c = 13 ∧ d = 10 then decodeAux fuel r (rest.take (n + 1) :: acc) else .invalid

/-- Every chunk consumes at least five bytes, so `length + 1` rounds always suffice. -/
def decode (inp : Bytes) : Dec := decodeAux (inp.length + 1) inp []

end ChunkDecoder
end Servlin
