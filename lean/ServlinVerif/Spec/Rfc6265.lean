import ServlinVerif.Basic.Bytes
/-
  Specification for C15, from RFC 6265:
  * server side (§4.2.1/§5.4 read the other way): the cookie-string of one or more `Cookie` fields is a
    `;`-separated list of pairs; name and value are split at the first `=`; surrounding blanks are
    ignored; for a repeated name the last pair wins.
  * client side (§5.2): the Set-Cookie parsing algorithm, for the attributes the property lists.
-/
namespace Servlin
namespace Rfc6265

def wsp (b : UInt8) : Bool := b == 32 || b == 9

def trim (s : Bytes) : Bytes := ((s.dropWhile wsp).reverse.dropWhile wsp).reverse

/-- Split at the first `=`. -/
def cutEq : Bytes → Option (Bytes × Bytes)
  | [] => none
  | b :: t => if b = 61 then some ([], t) else (cutEq t).map fun p => (b :: p.1, p.2)

/-- All pairs of a list of Cookie field values, in order; `none` if some non-empty segment has no `=`. -/
def pairs (values : List Bytes) : Option (List (Bytes × Bytes)) :=
  (values.flatMap fun v => ((splitOn 59 v).map trim).filter (· ≠ [])).mapM cutEq

/-- The value the handler must see for `name`: that of the last pair with this name. -/
def lookup (ps : List (Bytes × Bytes)) (name : Bytes) : Option Bytes :=
  (ps.reverse.find? (·.1 == name)).map (·.2)

/-! ### §5.2 Set-Cookie -/

structure SetCookie where
  name : Bytes
  value : Bytes
  domain : Option Bytes := none
  path : Option Bytes := none
  maxAge : Option Int := none
  secure : Bool := false
  httpOnly : Bool := false
  sameSite : Option Bytes := none     -- lower-cased
deriving Repr, DecidableEq

def isDigit (b : UInt8) : Bool := 48 ≤ b && b ≤ 57
def decVal (v : Bytes) : Nat := v.foldl (fun a d => a * 10 + (d.toNat - 48)) 0
def lower (s : Bytes) : Bytes := s.map toLower

/-- One cookie-av (§5.2 step 3-7 and §5.2.1-6). -/
def applyAttr (c : SetCookie) (av : Bytes) : SetCookie :=
  let (an, avv) := match cutEq av with | some (n, v) => (trim n, trim v) | none => (trim av, [])
  let an := lower an
  if an == b!"domain" then
    if avv = [] then c else
      let d := if avv.head? = some 46 then avv.drop 1 else avv
      { c with domain := some (lower d) }
  else if an == b!"path" then
    if avv.head? = some 47 then { c with path := some avv } else { c with path := none }
  else if an == b!"max-age" then
    match avv with
    | [] => c
    | f :: r =>
      if (isDigit f || f == 45) && r.all isDigit then
        { c with maxAge := some (if f == 45 then -(decVal r : Int) else (decVal avv : Int)) }
      else c
  else if an == b!"secure" then { c with secure := true }
  else if an == b!"httponly" then { c with httpOnly := true }
  else if an == b!"samesite" then { c with sameSite := some (lower avv) }
  else c

/-- §5.2: `none` = "ignore the set-cookie-string entirely". -/
def parseSetCookie (s : Bytes) : Option SetCookie :=
  match splitOn 59 s with
  | [] => none
  | nv :: avs =>
    match cutEq nv with
    | none => none
    | some (n, v) =>
      let name := trim n
      if name = [] then none else some (avs.foldl applyAttr { name, value := trim v })

end Rfc6265
end Servlin
