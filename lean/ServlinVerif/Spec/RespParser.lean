import ServlinVerif.Spec.ChunkDecoder
import ServlinVerif.Spec.Grammar7230
import ServlinVerif.Spec.ReadSpec
/-
  Independent strict parser for one HTTP/1.1 response (RFC 7230 §3):
     status-line = "HTTP/1.1" SP 3DIGIT SP *( HTAB / SP / VCHAR ) CRLF
     *( field-name ":" OWS field-value OWS CRLF ) CRLF message-body
  The body is delimited by a single Content-Length or by chunked coding — never both, never neither.
-/
namespace Servlin
namespace RespParser

structure Parsed where
  code : Nat
  fields : List (Bytes × Bytes)   -- in order; values stripped of OWS
  body : Bytes
  rest : Bytes
deriving Repr, DecidableEq

inductive Res where
  | ok (p : Parsed)
  | incomplete (why : String)
  | invalid (why : String)
deriving Repr, DecidableEq

def isDigit (b : UInt8) : Bool := 48 ≤ b && b ≤ 57

def parseStatusLine (l : Bytes) : Option Nat :=
  match l with
  | 72 :: 84 :: 84 :: 80 :: 47 :: 49 :: 46 :: 49 :: 32 :: a :: b :: c :: 32 :: reason =>
    if isDigit a && isDigit b && isDigit c && reason.all Grammar.fieldByte then
      some ((a.toNat - 48) * 100 + (b.toNat - 48) * 10 + (c.toNat - 48))
    else none
  | _ => none

def lowerEq (a : Bytes) (s : Bytes) : Bool := a.map toLower == s

def decVal (v : Bytes) : Nat := v.foldl (fun a d => a * 10 + (d.toNat - 48)) 0

def parse (inp : Bytes) : Res :=
  match ReadSpec.firstBlankLine inp with
  | none => .incomplete "no blank line"
  | some i =>
    let lines := Grammar.splitCrlf (inp.take i)
    let afterHead := inp.drop (i + 4)
    if lines.any (fun l => l.contains 13 || l.contains 10) then .invalid "stray CR or LF in head" else
    match lines with
    | [] => .invalid "empty head"
    | sl :: fls =>
      match parseStatusLine sl with
      | none => .invalid "status line"
      | some code =>
        let parsed := fls.map Grammar.fieldLineParts
        if parsed.any Option.isNone then .invalid "field line" else
        let fields := parsed.filterMap id
        if !fields.all (fun f => f.2.all Grammar.fieldByte) then .invalid "field value bytes" else
        let cls := fields.filter (fun f => lowerEq f.1 (b!"content-length"))
        let tes := fields.filter (fun f => lowerEq f.1 (b!"transfer-encoding"))
        match cls, tes with
        | [cl], [] =>
          if cl.2 ≠ [] && cl.2.all isDigit then
            let n := decVal cl.2
            if afterHead.length < n then .incomplete "body shorter than content-length"
            else .ok ⟨code, fields, afterHead.take n, afterHead.drop n⟩
          else .invalid "content-length value"
        | [], [te] =>
          if te.2 == b!"chunked" then
            match ChunkDecoder.decode afterHead with
            | .complete data rest => .ok ⟨code, fields, data, rest⟩
            | .incomplete => .incomplete "chunked body"
            | .invalid => .invalid "chunked body"
          else .invalid "transfer-encoding value"
        | [], [] => .invalid "no framing"
        | _, _ => .invalid "ambiguous framing"

end RespParser
end Servlin
