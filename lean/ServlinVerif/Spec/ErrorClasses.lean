import ServlinVerif.Model.HttpError
/-
  Specification for C20: the documented class of every error value and what its response may
  reveal.  Independent of `HttpError.toResponse`.
-/
namespace Servlin
namespace ErrorClasses

inductive Class where
  | client (code : Nat)   -- caused by what the client sent: specific 4xx / 505
  | drop                  -- the peer is gone: nothing can be sent
  | server                -- caused by the server or the application: 500, no details
deriving Repr, DecidableEq

open HttpError in
def classOf : HttpError → Class
  | bodyNotUtf8 | invalidContentLength | malformedCookieHeader | malformedHeaderLine
  | malformedPath | malformedRequestLine | missingRequestLine | truncated
  | unsupportedTransferEncoding => .client 400
  | bodyTooLong => .client 413
  | headTooLong => .client 431
  | unsupportedProtocol => .client 505
  | disconnected => .drop
  | _ => .server

def isInfix (needle hay : Bytes) : Bool :=
  match hay with
  | [] => needle.isEmpty
  | _ :: t => needle.isPrefixOf hay || isInfix needle t

/-- Diagnostic of a client-caused error: names only the error kind. -/
def kindOnly (e : HttpError) : Bytes := str ("HttpError::" ++ e.name)

def tooBig : Bytes := str "Uploaded data is too big."
def internal : Bytes := str "Internal server error"

/-- Executable statement of the mapping clause for one error value `e` with payload `payload`
    (empty for payload-free variants) and an observed response.  Returns the failing sub-checks. -/
def check (e : HttpError) (payload : Bytes) (r : Response) : List String :=
  let bodyBytes := r.body.src.pieces.flatten
  match classOf e with
  | .client c =>
    (if r.kind == .normal then [] else ["client-kind"]) ++
    (if r.code == c then [] else ["client-code"]) ++
    (if bodyBytes == kindOnly e || bodyBytes == tooBig then [] else ["client-diagnostic"])
  | .drop => if r.kind == .dropConnection then [] else ["drop-kind"]
  | .server =>
    (if r.kind == .normal then [] else ["server-kind"]) ++
    (if r.code == 500 then [] else ["server-code"]) ++
    (if payload.length ≥ 2 && isInfix payload bodyBytes then ["server-leak"] else []) ++
    (if r.headers.isEmpty then [] else ["server-headers"])

end ErrorClasses
end Servlin
